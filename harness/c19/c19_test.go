// C19 — ProgressWriter reports true, monotone progress and never stalls the writer.
package c19

import (
	"bytes"
	"errors"
	"fmt"
	"io"
	"os"
	"runtime"
	"strings"
	"sync/atomic"
	"syscall"
	"testing"
	"testing/synctest"
	"time"

	"github.com/whoisnian/glb/util/ioutil"
	"pgregory.net/rapid"

	"verif/harness/internal/ev"
	"verif/harness/internal/rt"
)

func TestMain(m *testing.M) {
	ev.Rule("cases = scripts of Write / WriteString calls (0..64 KiB) against a wrapped writer with a per-call behaviour script (full, short by k, error after k bytes, error with 0 bytes; with and without io.StringWriter) and a consumer behaviour " +
		"(absent until Close, receiving before every write, before every k-th write, starting late, draining greedily in its own goroutine), executed inside a synctest bubble; " +
		"oracle = after every call Size() equals the sum of the counts the wrapped writer returned and (n, err) are passed through unchanged together with the exact bytes; every value received from Status() is one of the prefix sums and the sequence is non-decreasing; " +
		"a Write with nobody receiving returns (a blocked Write is reported by the bubble as a deadlock); after Close() the last received value is the final total and the channel is closed; " +
		"non-trivial = at least one short or failing write and a consumer that missed at least one update; distinct by script hash")
	ev.Assume("whether a consumer that is receiving at the time of a write must get that very update is not fixed by the statement (only monotonicity, membership in the prefix sums and the final value are)")
	rt.Main(m)
}

var errBoom = errors.New("boom")

type wbeh struct {
	short  int   // bytes withheld (0 = full write)
	fail   bool  // return an error as well
	silent bool  // a short write reported without an error (what io.Writer forbids and sloppy writers do all the same)
	err    error // the error of a failing write (nil: errBoom)
}

// errors a destination reports: some of them invite a retry (EINTR, EAGAIN, a deadline), which is the caller's decision,
// not the counting wrapper's
var failErrors = []error{nil, nil, syscall.EINTR, syscall.EAGAIN, &os.PathError{Op: "write", Path: "/dev/stdout", Err: syscall.EINTR}, os.ErrDeadlineExceeded, io.EOF, io.ErrClosedPipe, fmt.Errorf("flush: %w", syscall.ENOSPC)}

type wcall struct {
	size      int
	useString bool
	beh       wbeh
	consume   bool // a consumer is blocked in receive when this write happens
	// consumeDuring: the consumer starts its receive while the wrapped writer is busy with this call - after whatever the
	// ProgressWriter does before it calls the wrapped writer, before what it does afterwards
	consumeDuring bool
}

type script struct {
	calls      []wcall
	stacked    bool          // the wrapped writer is another ProgressWriter that has already counted bytes
	stringable bool          // wrapped writer implements io.StringWriter
	rich       bool          // ... and Flush / Buffered / Sync / Close / Available / Seek / Stat / WriteAt / Truncate, failing or misleading
	greedy     bool          // consumer drains in a loop from the start
	late       int           // consumer only starts before call #late (-1: per-call flags)
	absent     bool          // consumer absent until Close: it asks for Status() only once the writer is inside Close()
	asksSize   bool          // ... and calls Size() before its first receive
	lateBy     time.Duration // ... after this much time has passed with the writer waiting in Close()
}

func (s script) render() string {
	var parts []string
	for _, c := range s.calls {
		k := "Write"
		if c.useString {
			k = "WriteString"
		}
		p := fmt.Sprintf("%s(%d)", k, c.size)
		if c.beh.short > 0 {
			p += fmt.Sprintf(" short-by-%d", c.beh.short)
		}
		if c.beh.silent {
			p += " (without an error)"
		}
		if c.beh.fail {
			p += " fails"
			if c.beh.err != nil {
				p += " (" + c.beh.err.Error() + ")"
			}
		}
		if c.consume {
			p += " [consumer receiving]"
		}
		if c.consumeDuring {
			p += " [consumer arrives during the call]"
		}
		parts = append(parts, p)
	}
	return fmt.Sprintf("stacked=%v stringWriter=%v(rich=%v) greedy=%v late=%d absentUntilClose=%v asksSizeFirst=%v lateBy=%s: %s", s.stacked, s.stringable, s.rich, s.greedy, s.late, s.absent, s.asksSize, s.lateBy, strings.Join(parts, "; "))
}

// wrapped writers ---------------------------------------------------------

type plainWriter struct {
	behs   []wbeh
	i      int
	got    bytes.Buffer
	calls  []string
	during func() // run once, inside the next call
}

func (w *plainWriter) next(n int) (int, error) {
	if f := w.during; f != nil {
		w.during = nil
		f()
	}
	b := wbeh{}
	if w.i < len(w.behs) {
		b = w.behs[w.i]
	}
	w.i++
	k := n - b.short
	if k < 0 {
		k = 0
	}
	var err error
	if b.fail {
		err = errBoom
		if b.err != nil {
			err = b.err
		}
	} else if k < n && !b.silent {
		err = io.ErrShortWrite
	}
	return k, err
}

func (w *plainWriter) Write(p []byte) (int, error) {
	k, err := w.next(len(p))
	w.got.Write(p[:k])
	w.calls = append(w.calls, "Write")
	return k, err
}

type stringWriter struct{ plainWriter }

func (w *stringWriter) WriteString(s string) (int, error) {
	k, err := w.next(len(s))
	w.got.WriteString(s[:k])
	w.calls = append(w.calls, "WriteString")
	return k, err
}

// rich wrapped writers offer the optional methods of bufio.Writer, *os.File and friends - every one of them failing or
// reporting something - for a wrapper that goes looking for them. What the wrapped writer reported through Write and
// WriteString stays what Size() says.
type richPlain struct{ plainWriter }

func (w *richPlain) Flush() error   { return errBoom }
func (w *richPlain) Buffered() int  { return 3 }
func (w *richPlain) Available() int { return 0 }
func (w *richPlain) Sync() error    { return errBoom }
func (w *richPlain) Close() error   { return errBoom }
func (w *richPlain) Size() int      { return 4096 }
func (w *richPlain) Len() int       { return 1 }

// ... and the positional methods of a file that is not at its beginning (opened for append, or written to before it
// was wrapped): where the wrapped writer stands is not a count it has reported
func (w *richPlain) Seek(offset int64, whence int) (int64, error) { return 7340032 + offset, nil }
func (w *richPlain) Stat() (os.FileInfo, error)                   { return nil, errBoom }
func (w *richPlain) WriteAt(p []byte, off int64) (int, error)     { return 0, errBoom }
func (w *richPlain) Truncate(size int64) error                    { return errBoom }

type richString struct{ stringWriter }

func (w *richString) Flush() error   { return errBoom }
func (w *richString) Buffered() int  { return 3 }
func (w *richString) Available() int { return 0 }
func (w *richString) Sync() error    { return errBoom }
func (w *richString) Close() error   { return errBoom }
func (w *richString) Size() int      { return 4096 }
func (w *richString) Len() int       { return 1 }

// ... and the positional methods of a file that is not at its beginning (opened for append, or written to before it
// was wrapped): where the wrapped writer stands is not a count it has reported
func (w *richString) Seek(offset int64, whence int) (int64, error) { return 7340032 + offset, nil }
func (w *richString) Stat() (os.FileInfo, error)                   { return nil, errBoom }
func (w *richString) WriteAt(p []byte, off int64) (int, error)     { return 0, errBoom }
func (w *richString) Truncate(size int64) error                    { return errBoom }

// the scenario, run on the root goroutine of a bubble ----------------------------

type outcome struct {
	missed      int
	during      int
	shortOrFail int
	received    int
}

func runScript(s script) (string, outcome) {
	var oc outcome
	var inner io.Writer
	var pw0 *plainWriter
	behs := make([]wbeh, len(s.calls))
	for i, c := range s.calls {
		behs[i] = c.beh
	}
	switch {
	case s.stringable && s.rich:
		sw := &richString{stringWriter{plainWriter{behs: behs}}}
		inner, pw0 = sw, &sw.plainWriter
	case s.stringable:
		sw := &stringWriter{plainWriter{behs: behs}}
		inner, pw0 = sw, &sw.plainWriter
	case s.rich:
		rw := &richPlain{plainWriter{behs: behs}}
		inner, pw0 = rw, &rw.plainWriter
	default:
		pw0 = &plainWriter{behs: behs}
		inner = pw0
	}
	// stacked: the writer that is wrapped is itself a ProgressWriter (per-file progress inside overall progress) that has
	// already counted a few bytes. The two are separate objects: separate totals, separate channels, separate Close().
	var below *ioutil.ProgressWriter
	pre := 0
	if s.stacked {
		pw0.behs = append([]wbeh{{}}, pw0.behs...)
		below = ioutil.NewProgressWriter(inner)
		if n, err := below.Write([]byte("earlier")); n != 7 || err != nil {
			return fmt.Sprintf("harness: pre-write returned (%d, %v)", n, err), oc
		}
		pre = 1
		inner = below
	}
	pw := ioutil.NewProgressWriter(inner)
	var status chan int
	if !s.absent {
		status = pw.Status()
	}

	var received []int
	sizeAtReceipt := "" // first disagreement between a received value and Size() asked on receipt
	closedSeen := false
	token := make(chan struct{})
	consumerDone := make(chan struct{})
	go func() {
		defer close(consumerDone)
		if s.absent {
			return // this consumer shows up - and asks for the channel - only when the writer is in Close()
		}
		if s.greedy {
			for v := range status {
				received = append(received, v)
			}
			closedSeen = true
			return
		}
		for range token {
			v, ok := <-status
			if !ok {
				closedSeen = true
				return
			}
			// a consumer that looks at Size() the moment it is told a total: the writer does not write again before
			// this goroutine is parked on its next token (the director waits for that), so nothing can have changed the
			// total since the value was sent - Size() is that value, not the total of before the write (round twenty-two)
			if sz := pw.Size(); sz != v && sizeAtReceipt == "" {
				sizeAtReceipt = fmt.Sprintf("the consumer received %d from Status() and Size(), asked at once with the writer idle, said %d", v, sz)
			}
			received = append(received, v)
		}
	}()

	receiving := false // the per-call consumer holds a token and is blocked in its receive
	sums := map[int]bool{0: true}
	total := 0
	var expectData bytes.Buffer
	for i, c := range s.calls {
		parked := receiving
		if !s.greedy && !s.absent && c.consume && (s.late < 0 || i >= s.late) && !receiving {
			token <- struct{}{}
			parked, receiving = true, true
		}
		synctest.Wait() // the consumer (if any) is now durably blocked in its receive
		if !s.greedy && !s.absent && c.consumeDuring && (s.late < 0 || i >= s.late) && !receiving {
			pw0.during = func() {
				token <- struct{}{}
				synctest.Wait() // ... and now it is, in the middle of the call
			}
			parked, receiving = true, true
			oc.during++
		}
		data := bytes.Repeat([]byte{byte('a' + i%26)}, c.size)
		before := len(received)
		var n int
		var err error
		if c.useString {
			n, err = pw.WriteString(string(data))
		} else {
			n, err = pw.Write(data)
		}
		wantN := c.size - c.beh.short
		if wantN < 0 {
			wantN = 0
		}
		var wantErr error
		if c.beh.fail {
			wantErr = errBoom
			if c.beh.err != nil {
				wantErr = c.beh.err
			}
		} else if wantN < c.size && !c.beh.silent {
			wantErr = io.ErrShortWrite
		}
		if n != wantN || err != wantErr {
			return fmt.Sprintf("call #%d returned (%d, %v), the wrapped writer returned (%d, %v)", i, n, err, wantN, wantErr), oc
		}
		if wantN < c.size || c.beh.fail {
			oc.shortOrFail++
		}
		total += wantN
		sums[total] = true
		expectData.Write(data[:wantN])
		if got := pw.Size(); got != total {
			return fmt.Sprintf("after call #%d Size() = %d, the wrapped writer has reported %d bytes in total", i, got, total), oc
		}
		wantCall := "Write"
		if c.useString && s.stringable {
			wantCall = "WriteString"
		}
		if len(pw0.calls) != i+1+pre || pw0.calls[i+pre] != wantCall {
			return fmt.Sprintf("call #%d reached the wrapped writer as %v, want one %s call", i, pw0.calls[min(i+pre, len(pw0.calls)):], wantCall), oc
		}
		synctest.Wait()
		if len(received) > before {
			receiving = false // the consumer took this update and waits for the next token
		}
		if parked && len(received) == before {
			// the consumer was receiving but got nothing: allowed (oracle silent), but it must not stay parked forever;
			// it will take a later value or the final one.
			oc.missed++
		} else if !parked && !s.greedy {
			oc.missed++
		}
	}
	if s.stacked {
		expectData = *bytes.NewBuffer(append([]byte("earlier"), expectData.Bytes()...))
	}
	if !bytes.Equal(pw0.got.Bytes(), expectData.Bytes()) {
		return "the bytes that reached the wrapped writer differ from the bytes written", oc
	}
	// Close needs a receiver (documented): make sure one is there, then close.
	if s.absent {
		// absent until Close: nobody has even asked for the channel so far. The writer goes into Close(), and only
		// then does the consumer call Status() and drain: it must get the final total and see the channel closed.
		closeReturned := make(chan struct{})
		go func() {
			pw.Close()
			close(closeReturned)
		}()
		synctest.Wait()
		if s.lateBy > 0 {
			// the consumer is slow: (virtual) time passes while the writer sits in Close() waiting for it. However long
			// that takes, the final total is what the consumer receives last
			time.Sleep(s.lateBy)
			synctest.Wait()
		}
		if s.asksSize {
			// the consumer looks at the total first (the writer is parked in Close(), nothing can change it)
			if got := pw.Size(); got != total {
				return fmt.Sprintf("Size() = %d while Close() waits for its consumer, want the final total %d", got, total), oc
			}
		}
		for v := range pw.Status() { // a hang here is reported by the bubble as a deadlock
			received = append(received, v)
		}
		closedSeen = true
		<-closeReturned
	} else if !s.greedy {
		// a consumer that was parked by an earlier token and never served is still receiving; otherwise park it now
		synctest.Wait()
		go func() {
			// keep serving tokens so that the consumer also observes the close
			for {
				select {
				case token <- struct{}{}:
				case <-consumerDone:
					return
				}
			}
		}()
	}
	if !s.absent {
		pw.Close()
	}
	<-consumerDone
	oc.received = len(received)
	if sizeAtReceipt != "" {
		return sizeAtReceipt, oc
	}
	if !closedSeen {
		return "the consumer never observed the Status() channel being closed after Close()", oc
	}
	if len(received) == 0 || received[len(received)-1] != total {
		return fmt.Sprintf("after Close() the last value received is %v, want the final total %d", received, total), oc
	}
	prev := 0
	for i, v := range received {
		if !sums[v] {
			return fmt.Sprintf("received value #%d = %d is not Size() after any completed write (prefix sums: %v)", i, v, keys(sums)), oc
		}
		if v < prev {
			return fmt.Sprintf("received values decrease: %v", received), oc
		}
		prev = v
	}
	if got := pw.Size(); got != total {
		return fmt.Sprintf("after Close() Size() = %d, want %d", got, total), oc
	}
	if s.stacked {
		// the ProgressWriter underneath is untouched by the outer one's life cycle: its own total, its own open channel
		if got := below.Size(); got != 7+total {
			return fmt.Sprintf("the ProgressWriter underneath reports Size() = %d, want its own 7 bytes plus the %d written through it", got, total), oc
		}
		select {
		case v, ok := <-below.Status():
			return fmt.Sprintf("the channel of the ProgressWriter underneath delivered (%d, %v) although nobody closed that writer", v, ok), oc
		default:
		}
		var last int
		closed := make(chan struct{})
		go func() {
			defer close(closed)
			for v := range below.Status() {
				last = v
			}
		}()
		below.Close() // a panic here (send on closed channel) fails the case
		<-closed
		if last != 7+total {
			return fmt.Sprintf("the ProgressWriter underneath delivered %d as its final total, want %d", last, 7+total), oc
		}
	}
	// whoever asks for the channel after Close() has returned (a select loop that calls Status() every round, an
	// observer that starts late) gets a closed channel: a receive comes back at once, with ok == false
	for round := 0; round < 2; round++ {
		select {
		case v, ok := <-pw.Status():
			if ok {
				return fmt.Sprintf("Status() fetched after Close() had returned delivered another value (%d)", v), oc
			}
		default:
			return "Status() fetched after Close() had returned is not a closed channel: a receive on it would block", oc
		}
	}
	// a writer created after this one was closed is a writer of its own: whatever it counts, the closed one keeps its
	// total and its closed channel
	next := ioutil.NewProgressWriter(&bytes.Buffer{})
	nextDone := make(chan struct{})
	go func() {
		defer close(nextDone)
		for range next.Status() {
		}
	}()
	extra := 5 + total%3
	next.Write(make([]byte, extra))
	if got := pw.Size(); got != total {
		return fmt.Sprintf("after a second ProgressWriter was created and took %d bytes, Size() of the first (closed) one = %d, want still %d", extra, got, total), oc
	}
	if got := next.Size(); got != extra {
		return fmt.Sprintf("a ProgressWriter created after another one was closed reports Size() = %d after its first write of %d bytes", got, extra), oc
	}
	select {
	case v, ok := <-pw.Status():
		if ok {
			return fmt.Sprintf("the closed writer's Status() delivered %d after a second ProgressWriter was created", v), oc
		}
	default:
		return "the closed writer's Status() is an open channel again after a second ProgressWriter was created", oc
	}
	next.Close()
	<-nextDone
	return "", oc
}

func keys(m map[int]bool) []int {
	var out []int
	for k := range m {
		out = append(out, k)
	}
	return out
}

func genScript(t *rapid.T) script {
	s := script{stringable: rapid.Bool().Draw(t, "stringWriter"), late: -1, stacked: rapid.IntRange(0, 5).Draw(t, "stackedOnAnotherProgressWriter") == 0}
	s.rich = rapid.IntRange(0, 2).Draw(t, "wrappedWriterOffersFlushSyncClose") == 0
	switch rapid.IntRange(0, 5).Draw(t, "consumer") {
	case 0:
		s.greedy = true
	case 1:
		s.late = rapid.IntRange(0, 10).Draw(t, "late")
	case 2:
		s.absent = true
		s.asksSize = rapid.Bool().Draw(t, "consumerAsksSizeFirst")
		s.lateBy = rapid.SampledFrom([]time.Duration{0, 0, time.Millisecond, time.Second, time.Hour}).Draw(t, "consumerLateBy")
	}
	every := rapid.IntRange(0, 4).Draw(t, "consumeEvery") // 0: never until Close
	n := rapid.IntRange(0, 14).Draw(t, "ncalls")
	for i := 0; i < n; i++ {
		c := wcall{
			size:      rapid.SampledFrom([]int{0, 0, 1, 2, 7, 100, 4096, 65536}).Draw(t, "size"),
			useString: rapid.Bool().Draw(t, "useString"),
		}
		switch rapid.IntRange(0, 5).Draw(t, "behaviour") {
		case 0:
			c.beh.short = rapid.IntRange(1, 5).Draw(t, "shortBy")
			c.beh.silent = rapid.IntRange(0, 2).Draw(t, "shortWithoutError") == 0
		case 1:
			c.beh.fail = true
			c.beh.short = rapid.SampledFrom([]int{0, 1, 3, 1 << 20}).Draw(t, "failAfter")
			c.beh.err = rapid.SampledFrom(failErrors).Draw(t, "error")
		}
		if every > 0 {
			c.consume = i%every == 0
		}
		if !c.consume && rapid.IntRange(0, 3).Draw(t, "consumerArrivesDuringTheCall") == 0 {
			c.consumeDuring = true
		}
		if rapid.IntRange(0, 9).Draw(t, "flip") == 0 {
			c.consume = !c.consume
		}
		s.calls = append(s.calls, c)
	}
	return s
}

func runInBubble(t *rapid.T, s script) (msg string, oc outcome) {
	defer func() {
		if r := recover(); r != nil {
			m := fmt.Sprint(r)
			if e, ok := r.(error); ok {
				m = e.Error()
			}
			if strings.Contains(m, "deadlock") || strings.Contains(m, "blocked goroutines remain") {
				msg = "a call blocked although it must not (bubble: " + firstLine(m) + ")"
				return
			}
			panic(r)
		}
	}()
	rapid.SyncTest(t, func(t *rapid.T) {
		msg, oc = runScript(s)
	})
	return
}

func firstLine(s string) string {
	if i := strings.IndexByte(s, '\n'); i >= 0 {
		return s[:i]
	}
	return s
}

func TestScripts(t *testing.T) {
	rt.Check(t, 5000, 5000000, func(t *rapid.T) {
		s := genScript(t)
		rt.Describe(s.render())
		msg, oc := runInBubble(t, s)
		if msg != "" {
			t.Fatalf("%s\nscript: %s", msg, s.render())
		}
		if s.greedy {
			ev.Label("consumer:greedy")
		} else if s.absent {
			ev.Label("consumer:absent_until_Close_asks_for_Status_then")
		} else if s.late >= 0 {
			ev.Label("consumer:late")
		} else {
			ev.Label("consumer:per-call")
		}
		if oc.during > 0 {
			ev.Label("consumer_arrives_while_the_wrapped_writer_is_busy")
		}
		if oc.shortOrFail > 0 {
			ev.Label("short_or_failing_write")
		}
		if oc.missed > 0 {
			ev.Label("consumer_missed_update")
		}
		ev.Case(oc.shortOrFail > 0 && oc.missed > 0, ev.Hash(s.render()), s.render)
	})
}

// TestConcurrentConsumer lets a consumer receive in a tight loop, on its own goroutine, while the writer issues
// thousands of small writes: producer and consumer really run in parallel inside the bubble, so windows between two
// channel operations of the writer are hit. If a Write (or Close) ever waits for something the consumer cannot
// provide, every goroutine of the bubble ends up blocked and the bubble reports it - no wall-clock timeout involved.
func TestConcurrentConsumer(t *testing.T) {
	rt.Check(t, 40, 4000, func(t *rapid.T) {
		writes := rapid.SampledFrom([]int{200, 2000, 10000}).Draw(t, "writes")
		pace := rapid.IntRange(0, 2).Draw(t, "consumerPace")
		useString := rapid.Bool().Draw(t, "useString")
		stringable := rapid.Bool().Draw(t, "stringWriter")
		var msg string
		received, total := 0, 0
		func() {
			defer func() {
				if r := recover(); r != nil {
					m := fmt.Sprint(r)
					if e, ok := r.(error); ok {
						m = e.Error()
					}
					if strings.Contains(m, "deadlock") || strings.Contains(m, "blocked goroutines remain") {
						msg = "a Write or Close blocked while a consumer was receiving concurrently (bubble: " + firstLine(m) + ")"
						return
					}
					panic(r)
				}
			}()
			rapid.SyncTest(t, func(t *rapid.T) {
				var inner io.Writer = &plainWriter{}
				if stringable {
					inner = &stringWriter{}
				}
				pw := ioutil.NewProgressWriter(inner)
				status := pw.Status()
				done := make(chan struct{})
				var got []int
				go func() {
					defer close(done)
					for v := range status {
						got = append(got, v)
						for i := 0; i < pace; i++ {
							runtime.Gosched()
						}
					}
				}()
				for i := 0; i < writes; i++ {
					var n int
					var err error
					if useString {
						n, err = pw.WriteString("ab")
					} else {
						n, err = pw.Write([]byte("ab"))
					}
					if n != 2 || err != nil {
						msg = fmt.Sprintf("write #%d returned (%d, %v)", i, n, err)
						break
					}
					total += 2
					if pw.Size() != total {
						msg = fmt.Sprintf("after write #%d Size() = %d, want %d", i, pw.Size(), total)
						break
					}
				}
				pw.Close()
				<-done
				received = len(got)
				prev := 0
				for i, v := range got {
					if v < prev || v%2 != 0 || v > total {
						msg = fmt.Sprintf("received value #%d = %d after %d (total %d): not a non-decreasing prefix sum", i, v, prev, total)
					}
					prev = v
				}
				if msg == "" && (len(got) == 0 || got[len(got)-1] != total) {
					msg = fmt.Sprintf("last received value %v, want the final total %d", got[max(0, len(got)-3):], total)
				}
			})
		}()
		if msg != "" {
			t.Fatalf("%s (writes=%d consumerPace=%d useString=%v stringWriter=%v)", msg, writes, pace, useString, stringable)
		}
		ev.Label("concurrent_consumer")
		ev.Case(received > 1 && received < writes, ev.Hash("conc", fmt.Sprint(writes, pace, useString, stringable, received)), func() string {
			return fmt.Sprintf("concurrent consumer: %d writes, pace %d, received %d values", writes, pace, received)
		})
	})
}

// ---- totals beyond 2^31 and 2^32 bytes ----

type countingWriter struct{ total int64 }

func (c *countingWriter) Write(p []byte) (int, error) { c.total += int64(len(p)); return len(p), nil }

// TestHugeTotals: a ProgressWriter in front of a multi-gigabyte transfer. The writes are large slices handed to a
// writer that only counts, so no data is moved; what is exercised is the arithmetic of the running total across the
// 2 GiB and 4 GiB marks: Size() after every write, the values a draining consumer sees, and the final total.
func TestHugeTotals(t *testing.T) {
	chunk := make([]byte, 64<<20)
	rt.Check(t, 3, 60, func(t *rapid.T) {
		n := rapid.SampledFrom([]int{31, 32, 33, 63, 64, 65, 70}).Draw(t, "chunks") // 64 MiB each: around 2 GiB and 4 GiB
		odd := rapid.IntRange(0, 4096).Draw(t, "oddBytes")
		cw := &countingWriter{}
		pw := ioutil.NewProgressWriter(cw)
		var got []int
		done := make(chan struct{})
		go func() {
			defer close(done)
			for v := range pw.Status() {
				got = append(got, v)
			}
		}()
		total := 0
		for i := 0; i < n; i++ {
			p := chunk
			if i == n/2 {
				p = chunk[:len(chunk)-odd]
			}
			k, err := pw.Write(p)
			if k != len(p) || err != nil {
				t.Fatalf("write #%d returned (%d, %v)", i, k, err)
			}
			total += len(p)
			if s := pw.Size(); s != total {
				t.Fatalf("after %d writes Size() = %d, the wrapped writer has reported %d bytes in total", i+1, s, total)
			}
		}
		pw.Close()
		<-done
		if len(got) == 0 || got[len(got)-1] != total {
			t.Fatalf("after Close() the last value received is %v, want the final total %d", got[max(0, len(got)-3):], total)
		}
		for i := 1; i < len(got); i++ {
			if got[i] < got[i-1] {
				t.Fatalf("received values decrease: ... %d, %d ...", got[i-1], got[i])
			}
		}
		if int64(total) != cw.total {
			t.Fatalf("harness: wrapped writer counted %d, script %d", cw.total, total)
		}
		ev.Label("huge_total")
		ev.Case(true, ev.Hash("huge", fmt.Sprint(n, odd)), func() string {
			return fmt.Sprintf("%d writes of 64 MiB (one %d bytes shorter): total %d bytes", n, odd, total)
		})
	})
}

// ---- io.Copy into the ProgressWriter ----

// tally is a wrapped writer that adds up what it reports, through whichever entry point it is driven.
type tally struct {
	reported  int
	failAfter int // report an error once this many bytes have been taken (-1: never)
	calls     []string
}

func (w *tally) take(n int) (int, error) {
	if w.failAfter >= 0 && w.reported+n > w.failAfter {
		k := max(0, w.failAfter-w.reported)
		w.reported += k
		return k, errBoom
	}
	w.reported += n
	return n, nil
}

func (w *tally) Write(p []byte) (int, error) {
	w.calls = append(w.calls, "Write")
	return w.take(len(p))
}

// tallyRF additionally offers io.ReaderFrom, as bytes.Buffer, bufio.Writer, *os.File and TCP connections do.
type tallyRF struct{ tally }

func (w *tallyRF) ReadFrom(r io.Reader) (int64, error) {
	w.calls = append(w.calls, "ReadFrom")
	var total int64
	buf := make([]byte, 700)
	for {
		n, rerr := r.Read(buf)
		k, werr := w.take(n)
		total += int64(k)
		if werr != nil {
			return total, werr
		}
		if rerr == io.EOF {
			return total, nil
		}
		if rerr != nil {
			return total, rerr
		}
	}
}

// source yields size bytes in pieces and then io.EOF or an error; it offers nothing but Read.
type source struct {
	left, piece int
	err         error
}

func (s *source) Read(p []byte) (int, error) {
	if s.left == 0 {
		if s.err != nil {
			return 0, s.err
		}
		return 0, io.EOF
	}
	n := min(len(p), s.left, s.piece)
	s.left -= n
	return n, nil
}

// TestCopyInto: the writer is driven by io.Copy / io.CopyN / io.CopyBuffer (which look for io.ReaderFrom on the
// destination and io.WriterTo on the source before they fall back to Write), from sources that end or fail half-way, into
// wrapped writers with and without a fast path of their own that may fail half-way too. Size() is what the wrapped
// writer reported, whichever way the bytes went.
func TestCopyInto(t *testing.T) {
	rt.Check(t, 600, 100000, func(t *rapid.T) {
		size := rapid.SampledFrom([]int{0, 1, 699, 700, 701, 5000, 40000, 100000}).Draw(t, "sourceBytes")
		src := &source{left: size, piece: rapid.SampledFrom([]int{1, 7, 512, 4096, 1 << 20}).Draw(t, "piece")}
		if rapid.IntRange(0, 2).Draw(t, "sourceFails") == 0 {
			src.err = errors.New("source: connection reset")
		}
		failAfter := -1
		if rapid.IntRange(0, 2).Draw(t, "destinationFails") == 0 {
			failAfter = rapid.IntRange(0, size+1).Draw(t, "destinationFailsAfter")
		}
		var wrapped io.Writer
		var tl *tally
		fast := rapid.Bool().Draw(t, "wrappedWriterOffersReadFrom")
		if fast {
			w := &tallyRF{tally{failAfter: failAfter}}
			wrapped, tl = w, &w.tally
		} else {
			w := &tally{failAfter: failAfter}
			wrapped, tl = w, w
		}
		pw := ioutil.NewProgressWriter(wrapped)
		var last atomic.Int64
		last.Store(-1)
		done := make(chan struct{})
		go func() {
			defer close(done)
			for v := range pw.Status() {
				last.Store(int64(v))
			}
		}()
		pw.Write([]byte("prelude")) // 7 bytes the ordinary way first
		how := rapid.IntRange(0, 2).Draw(t, "how")
		var n int64
		var err error
		switch how {
		case 0:
			n, err = io.Copy(pw, src)
		case 1:
			n, err = io.CopyN(pw, src, int64(size))
		default:
			n, err = io.CopyBuffer(pw, src, make([]byte, 333))
		}
		if got := pw.Size(); got != tl.reported {
			t.Fatalf("after %s of %d bytes (source error %v, destination fails after %d, wrapped writer offers ReadFrom: %v; copy returned %d, %v; wrapped writer was driven through %v): Size() = %d, the wrapped writer reported %d bytes",
				[]string{"io.Copy", "io.CopyN", "io.CopyBuffer"}[how], size, src.err, failAfter, fast, n, err, tl.calls[:min(len(tl.calls), 6)], got, tl.reported)
		}
		pw.Close()
		<-done
		if int(last.Load()) != tl.reported {
			t.Fatalf("after Close() the last value received is %d, the wrapped writer reported %d bytes (copy returned %d, %v)", last.Load(), tl.reported, n, err)
		}
		ev.Label("copy_into_the_writer")
		if src.err != nil || (failAfter >= 0 && failAfter <= size+7) {
			ev.Label("copy_that_fails_half-way")
		}
		ev.Case(src.err != nil || failAfter >= 0, ev.Hash("copy", fmt.Sprint(size, src.piece, src.err != nil, failAfter, fast, how)), func() string {
			return fmt.Sprintf("copy of %d bytes in pieces of %d into the writer (source fails: %v, destination fails after %d, wrapped ReadFrom: %v)", size, src.piece, src.err != nil, failAfter, fast)
		})
	})
}
