// C06 — TaskLane runs every accepted task exactly once and no rejected task.
package c06

import (
	"fmt"
	"strings"
	"testing"

	"pgregory.net/rapid"

	"verif/harness/internal/ev"
	ls "verif/harness/internal/lanesim"
	"verif/harness/internal/rt"
)

func TestMain(m *testing.M) {
	ev.Rule("cases = task-lane scenario programs (lane/queue sizes incl. 1 lane and queueSize 0; inline and concurrent producers; instant, gated, sleeping and panicking tasks; pushes that time out in virtual time; " +
		"freezing a lane goroutine at a protocol step; cancel by function or deadline) executed inside a testing/synctest bubble; oracle = per-task Start() counters: never > 1, 0 for every task whose PushTask returned an error, and at every quiescent point " +
		"with a live context nothing accepted waits while a worker is idle - finally, with all gates open and virtual time advanced, every accepted task has been started exactly once; " +
		"non-trivial = at least 2 concurrent producers, at least one push that timed out, and a hand-over through the shared channel; distinct by program hash")
	ev.Assume("inside the bubble the order in which runnable goroutines run is still the Go scheduler's; the harness owns the clock, quiescence detection and (through the verif hooks) the step at which one chosen goroutine is parked")
	rt.Main(m)
}

var bias = ls.Bias{
	Weights:   map[ls.OpKind]int{ls.OpPush: 6, ls.OpSpawnPush: 8, ls.OpOpen: 3, ls.OpSettle: 4, ls.OpAdvance: 3, ls.OpStatus: 1, ls.OpPollers: 0, ls.OpFreeze: 2, ls.OpThaw: 2, ls.OpCancel: 1},
	TaskKinds: []ls.TaskKind{ls.TInstant, ls.TInstant, ls.TInstant, ls.TGated, ls.TGated, ls.TSleep, ls.TSleep, ls.TPanic, ls.TCancel},
	Deadline:  10,
	MaxOps:    60,
	Cancel:    true,
}

var hookHits = map[string]int{}

func TestScenarios(t *testing.T) {
	rt.Check(t, 3000, 5000000, func(t *rapid.T) {
		p := ls.GenProgram(bias).Draw(t, "program")
		res, bubble := ls.RunInBubble(t, p)
		if bubble != "" {
			ev.Label("skipped:bubble_failure_(belongs_to_C07)")
			ev.Inconclusive(1)
			return
		}
		if own := ls.Own(res, "C06"); len(own) > 0 {
			t.Fatalf("%s\nprogram: %s", strings.Join(own, "\n"), p)
		}
		for k, v := range res.HookHits {
			hookHits[k] += v
		}
		nt := res.Producers >= 2 && res.PushTimeouts >= 1 && res.HandoverViaShared >= 1
		if res.PushTimeouts > 0 {
			ev.Label("push_timed_out")
		}
		if res.HandoverViaShared > 0 {
			ev.Label("handover_via_shared_channel")
		}
		if res.PushRejectedByCtx > 0 {
			ev.Label("push_rejected_by_context")
		}
		for pt, n := range res.FreezeHit {
			if n > 0 {
				ev.Label("froze_at_" + pt)
			}
		}
		if res.Cancelled {
			ev.Label("cancelled_midway:" + res.CancelPoint)
		}
		ev.LabelN("tasks_accepted", int64(res.Accepted))
		ev.LabelN("tasks_started", int64(res.Started))
		ev.Case(nt, ev.Hash(p.String()), func() string {
			return fmt.Sprintf("%s => accepted=%d started=%d timeouts=%d ctxRejected=%d viaShared=%d", p, res.Accepted, res.Started, res.PushTimeouts, res.PushRejectedByCtx, res.HandoverViaShared)
		})
	})
	if !t.Failed() {
		for _, pt := range ls.Points {
			if hookHits[pt] == 0 {
				rt.Inconclusivef(t, "hook point %s was never reached: the verif hooks in tasklane are missing or moved", pt)
			}
		}
	}
}
