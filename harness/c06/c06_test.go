// C06 — TaskLane runs every accepted task exactly once and no rejected task.
package c06

import (
	"context"
	"fmt"
	"os"
	"runtime"
	"strings"
	"sync"
	"sync/atomic"
	"testing"
	"testing/synctest"
	"time"

	"github.com/whoisnian/glb/tasklane"

	"pgregory.net/rapid"

	"verif/harness/internal/ev"
	ls "verif/harness/internal/lanesim"
	"verif/harness/internal/rt"
)

func TestMain(m *testing.M) {
	ev.Rule("cases = task-lane scenario programs (lane/queue sizes incl. 1 lane and queueSize 0; inline and concurrent producers; instant, gated, sleeping and panicking tasks; pushes that time out in virtual time; " +
		"freezing a lane goroutine at a protocol step; cancel by function or deadline) executed inside a testing/synctest bubble; oracle = per-task Start() counters: never > 1, 0 for every task whose PushTask returned an error, and at every quiescent point " +
		"with a live context nothing accepted waits while a worker is idle - finally, with all gates open and virtual time advanced, every accepted task has been started exactly once; " +
		"non-trivial = at least 2 concurrent producers, at least one push that timed out, and a hand-over through the shared channel; distinct by program hash")
	ev.Assume("inside the bubble the order in which runnable goroutines run is still the Go scheduler's; the harness owns the clock, quiescence detection and (through the verif hooks) the step at which one chosen goroutine is parked")
	rt.Main(m)
}

var bias = ls.Bias{
	Weights:   map[ls.OpKind]int{ls.OpPush: 6, ls.OpSpawnPush: 8, ls.OpOpen: 3, ls.OpSettle: 4, ls.OpAdvance: 3, ls.OpStatus: 1, ls.OpPollers: 0, ls.OpFreeze: 2, ls.OpThaw: 2, ls.OpCancel: 1},
	TaskKinds: []ls.TaskKind{ls.TInstant, ls.TInstant, ls.TInstant, ls.TGated, ls.TGated, ls.TSleep, ls.TSleep, ls.TPanic, ls.TCancel, ls.TNil},
	Deadline:  10,
	MaxOps:    60,
	Cancel:    true,

	PanicStreak: true,
}

var hookHits = map[string]int{}

func TestScenarios(t *testing.T) {
	rt.Check(t, 3000, 5000000, func(t *rapid.T) {
		p := ls.GenProgram(bias).Draw(t, "program")
		res, bubble := ls.RunInBubble(t, p)
		if bubble != "" {
			ev.Label("skipped:bubble_failure_(belongs_to_C07)")
			ev.Inconclusive(1)
			return
		}
		if own := ls.Own(res, "C06"); len(own) > 0 {
			t.Fatalf("%s\nprogram: %s", strings.Join(own, "\n"), p)
		}
		for k, v := range res.HookHits {
			hookHits[k] += v
		}
		nt := res.Producers >= 2 && res.PushTimeouts >= 1 && res.HandoverViaShared >= 1
		if res.PushTimeouts > 0 {
			ev.Label("push_timed_out")
		}
		if res.HandoverViaShared > 0 {
			ev.Label("handover_via_shared_channel")
		}
		if res.PushRejectedByCtx > 0 {
			ev.Label("push_rejected_by_context")
		}
		for pt, n := range res.FreezeHit {
			if n > 0 {
				ev.Label("froze_at_" + pt)
			}
		}
		if res.Cancelled {
			ev.Label("cancelled_midway:" + res.CancelPoint)
		}
		ev.LabelN("tasks_accepted", int64(res.Accepted))
		ev.LabelN("tasks_started", int64(res.Started))
		ev.Case(nt, ev.Hash(p.String()), func() string {
			return fmt.Sprintf("%s => accepted=%d started=%d timeouts=%d ctxRejected=%d viaShared=%d", p, res.Accepted, res.Started, res.PushTimeouts, res.PushRejectedByCtx, res.HandoverViaShared)
		})
	})
	if !t.Failed() {
		for _, pt := range ls.Points {
			if hookHits[pt] == 0 {
				rt.Inconclusivef(t, "hook point %s was never reached: the verif hooks in tasklane are missing or moved", pt)
			}
		}
	}
}

// ---- real clock, real scheduler ----
//
// The bubble owns a virtual clock with the current (Go >= 1.23) timer-channel semantics. A program whose go.mod
// says go < 1.23 - like the library's own - runs PushTask's timeout with the old, buffered timer channels
// (GODEBUG=asynctimerchan=1), which testing/synctest does not support. This stress test therefore runs outside a
// bubble; the driver runs it once with GODEBUG=asynctimerchan=1 and once with the default.

type rtTask struct {
	count atomic.Int32
	dur   time.Duration
	err   error
	done  bool
	gate  chan struct{} // when set, the task blocks until the gate is closed
	panic any           // when set, the task panics with this value after it has counted its start
}

func (t *rtTask) Start() {
	t.count.Add(1)
	if t.gate != nil {
		<-t.gate
	}
	if t.dur > 0 {
		time.Sleep(t.dur)
	}
	if t.panic != nil {
		panic(t.panic)
	}
}

// TestLastFreeSlotRace: many producers, released together by a spin barrier, push to the same lane whose worker is busy
// and whose queue has room for only a few of them - over and over. Whoever gets nil must have its task started once the
// worker is free again; whoever does not fit gets ErrTimeout and its task never runs. The window in which two producers
// both believe the last slot is theirs is a few nanoseconds wide: it is reached by the number of rounds.
var lostOnce atomic.Bool

func TestLastFreeSlotRace(t *testing.T) {
	rt.Check(t, 6, 300, func(t *rapid.T) {
		queue := rapid.IntRange(1, 3).Draw(t, "queueSize")
		lanes := rapid.IntRange(1, 2).Draw(t, "laneSize")
		producers := rapid.IntRange(3, 12).Draw(t, "producers")
		rounds := rapid.SampledFrom([]int{100, 300}).Draw(t, "rounds")
		for r := 0; r < rounds; r++ {
			ctx, cancel := context.WithCancel(context.Background())
			tl := tasklane.New(ctx, lanes, queue)
			// the blocking tasks go in with a timeout that cannot expire: on a machine loaded far beyond its cores a goroutine
			// may lose the processor for longer than two milliseconds between arming PushTask's timer and the select that
			// looks at it, and then even a push into an empty queue can come back as a timeout (6.2)
			tl.SetTimeout(10 * time.Minute)
			gate := make(chan struct{})
			blockers := make([]*rtTask, lanes)
			for l := range blockers { // every worker is busy, so nothing is taken out of the target lane's queue for now
				blockers[l] = &rtTask{gate: gate}
				if err := tl.PushTask(blockers[l], l); err != nil {
					t.Fatalf("round %d: PushTask of the blocking task returned %v", r, err)
				}
			}
			for l := range blockers {
				for i := 0; blockers[l].count.Load() == 0 && i < 2000000; i++ {
					runtime.Gosched()
				}
			}
			tl.SetTimeout(2 * time.Millisecond) // the racing producers: whoever does not fit gives up quickly
			tasks := make([]*rtTask, producers)
			var arrived atomic.Int32
			var wg sync.WaitGroup
			for p := range tasks {
				tasks[p] = &rtTask{}
				wg.Add(1)
				go func(p int) {
					defer wg.Done()
					arrived.Add(1)
					for spin := 0; arrived.Load() < int32(producers); spin++ { // spin barrier: all producers call PushTask at the same moment
						if spin > 5000 {
							runtime.Gosched() // on a machine that is busier than this test assumes, do not starve the others
						}
					}
					tasks[p].err = tl.PushTask(tasks[p], 0)
				}(p)
			}
			wg.Wait()
			close(gate)
			accepted := 0
			for _, tk := range tasks {
				if tk.err == nil {
					accepted++
				}
			}
			// "eventually": the tasks are instant and the worker is free, so this takes microseconds; the bound only ends the
			// wait for a task that was lost, and is far beyond anything a loaded machine needs (once a loss has been seen,
			// the repetitions that minimise the case wait less)
			patience := 90 * time.Second
			if lostOnce.Load() {
				patience = 5 * time.Second
			}
			deadline := time.Now().Add(patience)
			started := func() (n int) {
				for _, tk := range tasks {
					if tk.err == nil && tk.count.Load() > 0 {
						n++
					}
				}
				return
			}
			for started() < accepted && time.Now().Before(deadline) {
				time.Sleep(200 * time.Microsecond)
			}
			time.Sleep(time.Millisecond)
			for p, tk := range tasks {
				c := tk.count.Load()
				switch {
				case c > 1:
					t.Fatalf("round %d: task of producer %d was started %d times", r, p, c)
				case tk.err != nil && c > 0:
					t.Fatalf("round %d: task of producer %d was started although PushTask returned %v", r, p, tk.err)
				case tk.err == nil && c == 0:
					lostOnce.Store(true)
					t.Fatalf("round %d: %d producers raced for the free slots of one lane (queueSize %d, laneSize %d): PushTask returned nil for %d tasks, but only %d were started within %s of the worker becoming free", r, producers, queue, lanes, accepted, started(), patience)
				}
			}
			cancel()
			tl.Wait()
		}
		ev.Label("last_free_slot_race")
		ev.LabelN("last_free_slot_rounds", int64(rounds))
		ev.Case(true, ev.Hash("slot", fmt.Sprint(queue, lanes, producers, rounds)), func() string {
			return fmt.Sprintf("%d rounds of %d producers racing for the free slots of one lane (queueSize %d, laneSize %d, every worker busy)", rounds, producers, queue, lanes)
		})
	})
}

func TestRealTimeStress(t *testing.T) {
	rt.Check(t, 8, 400, func(t *rapid.T) {
		lanes := rapid.IntRange(1, 3).Draw(t, "laneSize")
		queue := rapid.IntRange(0, 2).Draw(t, "queueSize")
		timeout := rapid.SampledFrom([]time.Duration{100 * time.Microsecond, 400 * time.Microsecond, time.Millisecond}).Draw(t, "timeout")
		producers := rapid.IntRange(2, 6).Draw(t, "producers")
		taskDur := rapid.SampledFrom([]time.Duration{0, 50 * time.Microsecond, 300 * time.Microsecond, time.Millisecond}).Draw(t, "taskDuration")
		// a long-lived lane sees many panicking tasks over its life time: hundreds per worker here
		panicEvery := rapid.SampledFrom([]int{0, 0, 2, 5, 17}).Draw(t, "panicEvery")
		ctx, cancel := context.WithCancel(context.Background())
		tl := tasklane.New(ctx, lanes, queue)
		tl.SetTimeout(timeout)
		var mu sync.Mutex
		var all []*rtTask
		var wg sync.WaitGroup
		stop := time.Now().Add(120 * time.Millisecond)
		for p := 0; p < producers; p++ {
			wg.Add(1)
			go func(p int) {
				defer wg.Done()
				var mine []*rtTask
				for i := 0; time.Now().Before(stop) && i < 4000; i++ {
					tk := &rtTask{dur: taskDur}
					if panicEvery > 0 && i%panicEvery == 0 {
						tk.panic = fmt.Sprintf("task %d/%d panics", p, i)
					}
					tk.err = tl.PushTask(tk, (p+i)%lanes)
					mine = append(mine, tk)
				}
				mu.Lock()
				all = append(all, mine...)
				mu.Unlock()
			}(p)
		}
		wg.Wait()
		// with a live context every accepted task is eventually started: give the lane generous real time
		patience := 90 * time.Second // far beyond what a loaded machine needs for a handful of sub-millisecond tasks; it only ends the wait for a task that was lost
		if lostOnce.Load() {
			patience = 8 * time.Second
		}
		deadline := time.Now().Add(patience)
		pending := func() int {
			n := 0
			for _, tk := range all {
				if tk.err == nil && tk.count.Load() == 0 {
					n++
				}
			}
			return n
		}
		for pending() > 0 && time.Now().Before(deadline) {
			time.Sleep(2 * time.Millisecond)
		}
		time.Sleep(5 * time.Millisecond)
		accepted, timeouts := 0, 0
		for i, tk := range all {
			c := tk.count.Load()
			switch {
			case c > 1:
				t.Fatalf("real clock: task #%d was started %d times (lanes=%d queue=%d timeout=%s producers=%d)", i, c, lanes, queue, timeout, producers)
			case tk.err != nil && c > 0:
				t.Fatalf("real clock: task #%d was started although PushTask returned %v (lanes=%d queue=%d timeout=%s producers=%d taskDuration=%s)", i, tk.err, lanes, queue, timeout, producers, taskDur)
			case tk.err == nil && c == 0:
				lostOnce.Store(true)
				t.Fatalf("real clock: accepted task #%d has not been started %s after the last push, with a live context (lanes=%d queue=%d timeout=%s producers=%d, every %d-th task panics)", i, patience, lanes, queue, timeout, producers, panicEvery)
			}
			if tk.err == nil {
				accepted++
			} else {
				timeouts++
			}
		}
		cancel()
		tl.Wait()
		ev.Label("realtime:GODEBUG=" + os.Getenv("GODEBUG"))
		ev.LabelN("realtime_pushes", int64(len(all)))
		ev.LabelN("realtime_push_timeouts", int64(timeouts))
		ev.Case(timeouts > 0 && accepted > 0, ev.Hash("rt", os.Getenv("GODEBUG"), fmt.Sprint(lanes, queue, timeout, producers, taskDur, len(all), timeouts)), func() string {
			return fmt.Sprintf("real-clock stress GODEBUG=%q lanes=%d queue=%d timeout=%s producers=%d taskDuration=%s: %d pushes, %d accepted, %d timed out", os.Getenv("GODEBUG"), lanes, queue, timeout, producers, taskDur, len(all), accepted, timeouts)
		})
	})
}

// ---- the same task value pushed more than once ----

// reTask is a task object that its owner pushes again and again (a periodic job, a retry): every accepted push is a task
// in the sense of the statement, so the object is started once per accepted push.
type reTask struct {
	starts   atomic.Int32
	accepted atomic.Int32
	inFlight atomic.Int32
	gate     chan struct{} // its runs block until the gate is closed (nil: they return at once)
	again    atomic.Int32  // that many runs push the object once more from inside Start()
	push     func(lane int) error
	over     atomic.Bool // more starts than accepted pushes plus pushes in progress were seen
}

func (r *reTask) Start() {
	if n := r.starts.Add(1); n > r.accepted.Load()+r.inFlight.Load() {
		r.over.Store(true)
	}
	if r.gate != nil {
		<-r.gate
	}
	if r.again.Add(-1) >= 0 {
		r.push(int(r.starts.Load())) // a task that schedules its own next run (on some lane)
	}
}

// reValue hands the same object over as a comparable struct value: two pushes carry values that are == to each other.
type reValue struct {
	r   *reTask
	tag string
}

func (v reValue) Start() { v.r.Start() }

func TestSameTaskPushedAgain(t *testing.T) {
	rt.Check(t, 400, 60000, func(t *rapid.T) {
		laneSize := rapid.IntRange(1, 3).Draw(t, "laneSize")
		queueSize := rapid.IntRange(0, 3).Draw(t, "queueSize")
		nobj := rapid.IntRange(1, 3).Draw(t, "objects")
		type objSpec struct {
			asValue, gated bool
			again          int
		}
		specs := make([]objSpec, nobj)
		for i := range specs {
			specs[i] = objSpec{asValue: rapid.Bool().Draw(t, "asValue"), gated: rapid.IntRange(0, 2).Draw(t, "gated") == 0, again: rapid.SampledFrom([]int{0, 0, 1, 4}).Draw(t, "pushesItselfAgain")}
		}
		type step struct {
			obj, lane     int
			settle, spawn bool
		}
		steps := make([]step, rapid.IntRange(2, 14).Draw(t, "pushes"))
		for i := range steps {
			steps[i] = step{obj: rapid.IntRange(0, nobj-1).Draw(t, "obj"), lane: rapid.IntRange(0, laneSize-1).Draw(t, "lane"), settle: rapid.Bool().Draw(t, "settleFirst"), spawn: rapid.IntRange(0, 3).Draw(t, "fromAnotherGoroutine") == 0}
		}
		desc := fmt.Sprintf("laneSize=%d queueSize=%d objects=%+v pushes=%+v", laneSize, queueSize, specs, steps)
		rt.Describe(desc)
		var msg string
		repeats := 0
		rapid.SyncTest(t, func(t *rapid.T) {
			ctx, cancel := context.WithCancel(context.Background())
			tl := tasklane.New(ctx, laneSize, queueSize)
			objs := make([]*reTask, nobj)
			vals := make([]tasklane.Task, nobj)
			for i := range objs {
				r := &reTask{}
				if specs[i].gated {
					r.gate = make(chan struct{})
				}
				r.again.Store(int32(specs[i].again))
				vals[i] = r
				if specs[i].asValue {
					vals[i] = reValue{r: r, tag: "job"}
				}
				v := vals[i]
				r.push = func(lane int) error {
					r.inFlight.Add(1)
					err := tl.PushTask(v, lane%laneSize)
					if err == nil {
						r.accepted.Add(1)
					}
					r.inFlight.Add(-1)
					return err
				}
				objs[i] = r
			}
			var wg sync.WaitGroup
			pushed := make([]int, nobj)
			for _, st := range steps {
				if st.settle {
					synctest.Wait()
				}
				r := objs[st.obj]
				pushed[st.obj]++
				if st.spawn {
					wg.Add(1)
					go func() { defer wg.Done(); r.push(st.lane) }()
				} else {
					r.push(st.lane)
				}
			}
			for _, r := range objs {
				if r.gate != nil {
					close(r.gate)
				}
			}
			wg.Wait()
			time.Sleep(5 * time.Second) // virtual: every push that had to wait has been accepted or has timed out by now
			synctest.Wait()
			for i, r := range objs {
				if pushed[i] > 1 {
					repeats++
				}
				if r.over.Load() {
					msg = fmt.Sprintf("task object %d was started more often than it had been pushed", i)
				} else if s, a := r.starts.Load(), r.accepted.Load(); s != a {
					msg = fmt.Sprintf("task object %d: PushTask returned nil %d times for it (pushed %d times from outside, the rest by itself), but with a live context, every run returned and the clock advanced it has been started %d times", i, a, pushed[i], s)
				}
			}
			cancel()
			tl.Wait()
		})
		if msg != "" {
			t.Fatalf("%s\n%s", msg, desc)
		}
		ev.Label("same_task_value_pushed_again")
		ev.Case(repeats > 0, ev.Hash("again", desc), func() string { return "one task value pushed several times: " + desc })
	})
}
