// C15 — Logger.Relay contains handler panics and logs each request once, truthfully.
package c15

import (
	"bytes"
	"context"
	"errors"
	"fmt"
	"io"
	"log/slog"
	"net/http"
	"net/http/httptest"
	"net/url"
	"strconv"
	"strings"
	"sync"
	"testing"
	"time"

	"github.com/whoisnian/glb/httpd"
	"github.com/whoisnian/glb/logger"
	"pgregory.net/rapid"

	"verif/harness/internal/ev"
	lm "verif/harness/internal/logmodel"
	"verif/harness/internal/rt"
)

func TestMain(m *testing.M) {
	ev.Rule("cases = batches of requests (sequential, or 2..16 in flight) through httpd.Mux + Logger.Relay with generated handler behaviours: status 200..599 written or not, body or not, return or panic with a value of a generated type " +
		"(string, error, int, struct, typed nil pointer, panic(nil), unhashable values: slice, map, error struct holding a slice) before or after writing; matched and unmatched routes; generated method, URI and RemoteAddr (IPv4, bracketed IPv6); log handler kind x threshold; " +
		"oracle = no panic escapes ServeHTTP, the recorder sees 500 iff the handler panicked before anything was written (else what it wrote, 200 if nothing), and the written records, parsed per handler and grouped by request ID, are exactly one REQ_BEG and one REQ_END " +
		"(at Info) with the request's method, URI, client IP and the ID the handler saw, END code = status on the wire, BEG before END, plus exactly one Error record with the panic value for a panicking handler; " +
		"non-trivial = a panic after a partial response, a non-string panic value, or at least 4 requests in flight; distinct by batch hash")
	ev.Assume("http.ErrAbortHandler and panic values whose Error()/String() itself panics are outside the stated domain")
	rt.Main(m)
}

type pstruct struct {
	Code int
	Msg  string
}

var panicNilText = func() (s string) {
	defer func() { s = fmt.Sprint(recover()) }()
	var v any
	panic(v)
}()

// panic kinds: 0 none, then the dynamic types of the value
const (
	pNone = iota
	pString
	pError
	pInt
	pStruct
	pTypedNil
	pNil
	pWrapsAbort // an ordinary error value that merely wraps http.ErrAbortHandler: not the sentinel itself
	pIsAbort    // an error whose Is method claims to match the sentinel
	pSlice      // values of unhashable dynamic types: a slice, a map, a struct holding a slice (as an error)
	pMap
	pErrWithSlice
	numPanicKinds
	// pAbort is http.ErrAbortHandler: the statement makes no promise about such a request itself, but it is part of
	// the history the following requests must be unaffected by
	pAbort = 100
)

type behaviour struct {
	status int // 0 = WriteHeader is not called
	body   bool
	// flush > 0: the first thing the handler does with its writer is flush it (1 Flush(), 2 FlushError(), 3 through
	// http.NewResponseController): a streaming handler that wants the header out before its first chunk. On a writer that
	// can flush this sends the implicit 200; bareOrigin: the writer under the Mux offers Header, Write and WriteHeader
	// only (behind http.TimeoutHandler, a middleware's wrapper), and the flush sends nothing.
	flush      int
	bareOrigin bool
	// deep > 0: the panic comes from that many calls below the handler - the stack Relay records as the message of its
	// Error record is then longer than the 16 KiB at which the log handlers stop recycling their buffers (round
	// twenty-two): the panic value and the request id come after it all the same
	deep int
	// early != 0: the handler sends an informational response first (103 Early Hints with Link headers, 102 Processing)
	// - not a final status: the client goes on waiting for the status that follows, set explicitly or the implicit 200.
	// Only against the real server: a recorder takes the first WriteHeader for the final one.
	early       int
	bodyKind    int // when body: 0 one non-empty Write, 1 a zero-length Write, 2 a zero-length Write followed by a non-empty one, 3 two non-empty Writes
	panicKind   int
	panicBefore bool // panic before writing anything
	pstr        string
	pint        int
	// ctxDone: 1 = the incoming request's context is already cancelled (the client has hung up, the server is shutting
	// down), 2 = the handler swaps in a request whose own deadline has passed (s.R = s.R.WithContext(...)) before it
	// goes on. The statement is about what the handler does, not about the state of the request context.
	ctxDone int
	// invalidCode: the handler passes a status code to WriteHeader that net/http refuses with a panic (a proxy handing on
	// a bad upstream code): nothing has been written, the panic comes out of WriteHeader itself
	invalidCode int
	// headers: the handler sets response headers before it writes (a declared Content-Length, a content type, a
	// Connection: close): what Relay does with a panic does not depend on them
	headers int
}

func (b behaviour) String() string {
	s := fmt.Sprintf("status=%d body=%v", b.status, b.body)
	if b.invalidCode != 0 {
		s += fmt.Sprintf(" WriteHeader(%d)", b.invalidCode)
	}
	if b.headers > 0 {
		s += []string{"", " (declares Content-Length)", " (declares Content-Type and a Content-Length it will not honour)", " (sets Connection: close and a Trailer)"}[b.headers]
	}
	if b.ctxDone > 0 {
		s += []string{"", " (request context already cancelled)", " (handler swaps in a request past its deadline)"}[b.ctxDone]
	}
	if b.early != 0 {
		s += fmt.Sprintf(" (sends informational %d first)", b.early)
	}
	if b.flush > 0 {
		s += []string{"", " flushesFirst(Flush)", " flushesFirst(FlushError)", " flushesFirst(ResponseController)"}[b.flush]
	}
	if b.bareOrigin {
		s += " (writer under the Mux cannot flush)"
	}
	if b.body {
		s += []string{"", "(zero-length write)", "(zero-length, then data)", "(two writes)", "(io.Copy from a reader)", "(io.WriteString)", "(fmt.Fprintf)"}[b.bodyKind%7]
	}
	if b.panicKind != pNone {
		when := "after"
		if b.panicBefore {
			when = "before"
		}
		kind := "http.ErrAbortHandler"
		if b.panicKind < numPanicKinds {
			kind = panicKindNames[b.panicKind]
		}
		s += fmt.Sprintf(" panic(%s %q/%d) %s writing", kind, b.pstr, b.pint, when)
		if b.deep > 0 {
			s += fmt.Sprintf(" from %d calls down", b.deep)
		}
	}
	return s
}

func (b behaviour) panicValue() any {
	switch b.panicKind {
	case pString:
		return b.pstr
	case pError:
		return errors.New(b.pstr)
	case pInt:
		return b.pint
	case pStruct:
		return pstruct{b.pint, b.pstr}
	case pTypedNil:
		return (*pstruct)(nil)
	case pWrapsAbort:
		return fmt.Errorf("%s: %w", b.pstr, http.ErrAbortHandler)
	case pIsAbort:
		return claimsAbort{b.pstr}
	case pSlice:
		return []int{b.pint}
	case pMap:
		return map[string]int{"code": b.pint}
	case pErrWithSlice:
		return multiErr{Codes: []int{b.pint}}
	}
	return nil
}

// composite reports panic values whose rendering is left to the handler: only "carries the number" is asserted.
func (b behaviour) composite() bool {
	return b.panicKind == pStruct || b.panicKind == pSlice || b.panicKind == pMap
}

type multiErr struct{ Codes []int }

func (m multiErr) Error() string { return fmt.Sprintf("codes=%v", m.Codes) }

var panicKindNames = []string{"", "string", "error", "int", "struct", "typed-nil", "nil", "error-wrapping-ErrAbortHandler", "error-whose-Is-matches-ErrAbortHandler", "slice", "map", "error-struct-holding-a-slice"}

type claimsAbort struct{ msg string }

func (c claimsAbort) Error() string        { return c.msg }
func (c claimsAbort) Is(target error) bool { return target == http.ErrAbortHandler }

// panicNode is the attribute the Error record must carry, in terms of the shared log models.
func (b behaviour) panicNode() lm.Node {
	switch b.panicKind {
	case pString:
		return lm.Node{Key: "panic", Kind: lm.KString, S: b.pstr}
	case pError:
		return lm.Node{Key: "panic", Kind: lm.KError, S: b.pstr}
	case pInt:
		return lm.Node{Key: "panic", Kind: lm.KInt64, I: int64(b.pint)}
	case pStruct, pSlice, pMap:
		return lm.Node{Key: "panic", Kind: lm.KStruct} // composite: compared through its own encoding below
	case pErrWithSlice:
		return lm.Node{Key: "panic", Kind: lm.KError, S: fmt.Sprintf("codes=[%d]", b.pint)}
	case pTypedNil:
		return lm.Node{Key: "panic", Kind: lm.KNilPtr}
	case pWrapsAbort:
		return lm.Node{Key: "panic", Kind: lm.KError, S: b.pstr + ": " + http.ErrAbortHandler.Error()}
	case pIsAbort:
		return lm.Node{Key: "panic", Kind: lm.KError, S: b.pstr}
	default:
		return lm.Node{Key: "panic", Kind: lm.KError, S: panicNilText}
	}
}

func (b behaviour) wroteAnything() bool {
	if b.flush > 0 && !b.bareOrigin {
		return true // the flush has sent the header with the implicit 200, whatever happens next
	}
	if b.panicKind != pNone && b.panicBefore {
		return false
	}
	return b.status != 0 || b.body
}

func (b behaviour) wantCode(matched bool) int {
	if !matched {
		return 404
	}
	if b.wroteAnything() {
		if b.status != 0 {
			return b.status
		}
		return 200
	}
	if b.panicKind != pNone {
		return 500
	}
	return 200
}

type request struct {
	method, uri, remote, wantIP string
	longURI                     bool
	// a request that came through a proxy: one of the headers Store.GetClientIP() consults names another address. The
	// statement says "client IP"; the peer address and the address GetClientIP() reports are both a reading of that,
	// so either is accepted - the same one in REQ_BEG and REQ_END - and nothing else
	proxyHeader, proxyValue, proxyIP string
	getOnly                          bool // the path belongs to a route registered for GET alone
	matched                          bool
	b                                behaviour
	// observed
	code     int
	seenID   string
	escaped  any
	bodyText string
	// fwd: the handler of this request forwards another request (fwd) through the same Mux, handing it its own
	// Store.W, and writes nothing itself: the client receives whatever the forwarded handler wrote, and that is the
	// status both REQ_END records must carry. viaForward marks the forwarded request (it is not served directly).
	fwd        *request
	viaForward bool
}

func (rq *request) wantCode() int {
	if rq.fwd != nil {
		return rq.fwd.b.wantCode(true)
	}
	return rq.b.wantCode(rq.matched)
}

func thresholdName(l slog.Level) string {
	if n, ok := lm.LevelNames[l]; ok {
		return n
	}
	return "unnamed-threshold"
}

type ctxKey struct{}

// theMux is the Mux the handlers forward through (set by the batch that is running; batches run one at a time).
var theMux *httpd.Mux

func handlerFor() httpd.HandlerFunc {
	return func(s *httpd.Store) {
		rq := s.R.Context().Value(ctxKey{}).(*request)
		rq.seenID = strings.Clone(s.GetID())
		b := rq.b
		if rq.fwd != nil {
			u, _ := url.ParseRequestURI(rq.fwd.uri)
			req2 := &http.Request{Method: rq.fwd.method, URL: u, RequestURI: rq.fwd.uri, RemoteAddr: rq.fwd.remote, Header: http.Header{}, Proto: "HTTP/1.1", ProtoMajor: 1, ProtoMinor: 1, Body: http.NoBody}
			theMux.ServeHTTP(s.W, req2.WithContext(context.WithValue(context.Background(), ctxKey{}, rq.fwd)))
			return
		}
		if b.ctxDone == 2 {
			ctx, cancel := context.WithDeadline(s.R.Context(), time.Now().Add(-time.Second))
			defer cancel()
			s.R = s.R.WithContext(ctx)
		}
		switch b.headers {
		case 1:
			s.W.Header().Set("Content-Length", "4")
		case 2:
			s.W.Header().Set("Content-Type", "application/json")
			s.W.Header().Set("Content-Length", "1000")
		case 3:
			s.W.Header().Set("Connection", "close")
			s.W.Header().Set("Trailer", "X-Done")
		}
		switch b.flush {
		case 1:
			s.W.Flush()
		case 2:
			s.W.FlushError()
		case 3:
			http.NewResponseController(s.W).Flush()
		}
		if b.invalidCode != 0 {
			s.W.WriteHeader(b.invalidCode) // net/http panics: "invalid WriteHeader code ..."
		}
		if b.panicKind != pNone && b.panicBefore {
			doPanic(b)
		}
		if b.status != 0 {
			s.W.WriteHeader(b.status)
		}
		if b.body {
			writeBody(s, b)
		}
		if b.panicKind != pNone {
			doPanic(b)
		}
	}
}

// bareWriter is an http.ResponseWriter and nothing else.
type bareWriter struct{ w http.ResponseWriter }

func (b bareWriter) Header() http.Header         { return b.w.Header() }
func (b bareWriter) Write(p []byte) (int, error) { return b.w.Write(p) }
func (b bareWriter) WriteHeader(code int)        { b.w.WriteHeader(code) }

func writeBody(s *httpd.Store, b behaviour) {
	switch b.bodyKind % 7 {
	case 4:
		// the body is streamed from a reader (a file, an upstream response): io.Copy looks for faster paths on both
		// sides before it falls back to Write
		io.Copy(s.W, io.LimitReader(strings.NewReader("body and more"), 4))
	case 5:
		io.WriteString(s.W, "body")
	case 6:
		fmt.Fprintf(s.W, "%s", "body")
	case 0:
		s.W.Write([]byte("body"))
	case 1:
		s.W.Write([]byte{}) // commits the header like any other Write
	case 2:
		s.W.Write(nil)
		s.W.Write([]byte("body"))
	default:
		s.W.Write([]byte("bo"))
		s.W.Write([]byte("dy"))
	}
}

//go:noinline
func doPanic(b behaviour) {
	if b.deep > 0 {
		b.deep--
		doPanic(b)
		return
	}
	if b.panicKind == pAbort {
		panic(http.ErrAbortHandler)
	}
	if b.panicKind == pNil {
		var v any
		panic(v)
	}
	panic(b.panicValue())
}

type record struct {
	level  string
	fields map[string]string
	raw    []byte
	panicJ *lm.JVal
}

// parseRecord turns one written payload into fields, per handler kind.
func parseRecord(kind int, p []byte) (record, error) {
	r := record{fields: map[string]string{}, raw: p}
	switch kind {
	case lm.HJson:
		if len(p) == 0 || p[len(p)-1] != '\n' {
			return r, fmt.Errorf("no trailing newline")
		}
		v, err := lm.DecodeOne(p[:len(p)-1])
		if err != nil {
			return r, err
		}
		for _, m := range v.Members {
			switch m.Val.Kind {
			case lm.JString, lm.JNumber:
				r.fields[m.Key] = m.Val.Str
			default:
				r.fields[m.Key] = m.Val.String()
			}
			if m.Key == "panic" {
				mv := m.Val
				r.panicJ = &mv
			}
		}
		r.level = r.fields["level"]
	case lm.HText:
		toks, err := lm.Tokenize(p)
		if err != nil {
			return r, err
		}
		for _, t := range toks {
			r.fields[t.Key] = t.Val
		}
		r.level = r.fields["level"]
	default:
		// "2006-01-02 15:04:05 [I] REQ_BEG ip method path tid" / "... [I] REQ_END code dur ip method path tid" / "... [E] <stack> <panic> tid"
		s := strings.TrimSuffix(string(p), "\n")
		if len(s) < 24 {
			return r, fmt.Errorf("line too short")
		}
		r.level = map[string]string{"[D]": "DEBUG", "[I]": "INFO", "[W]": "WARN", "[E]": "ERROR", "[F]": "FATAL"}[s[20:23]]
		rest := s[24:]
		parts := strings.Split(rest, " ")
		switch {
		case strings.HasPrefix(rest, "REQ_BEG ") && len(parts) == 5:
			r.fields["tag"], r.fields["ip"], r.fields["method"], r.fields["path"], r.fields["tid"] = parts[0], parts[1], parts[2], parts[3], parts[4]
		case strings.HasPrefix(rest, "REQ_END ") && len(parts) == 7:
			r.fields["tag"], r.fields["code"], r.fields["dur"], r.fields["ip"], r.fields["method"], r.fields["path"], r.fields["tid"] = parts[0], parts[1], parts[2], parts[3], parts[4], parts[5], parts[6]
		case r.level == "ERROR":
			i := strings.LastIndexByte(rest, ' ')
			r.fields["tid"] = rest[i+1:]
			r.fields["msg+panic"] = rest[:i]
		default:
			return r, fmt.Errorf("unrecognised Nano line %q", rest)
		}
	}
	return r, nil
}

type batch struct {
	kind      int
	threshold slog.Level
	parallel  int
	reqs      []*request
	noRoute   int // 0 default 404 handler, 1 custom
	// the log destination has a size limit or fails now and then: it notes every record it is offered and answers some
	// with an error. What Relay owes the client does not depend on whether the log could be written.
	sinkRejectsOver, sinkRejectsEvery int
	// addSource: the logger was set up to record call sites. Relay's own records have none (program counter 0): whatever
	// the handlers put in its place, the records are there with their members (round twenty-three)
	addSource bool
}

func (b *batch) render() string {
	var parts []string
	for _, r := range b.reqs {
		shown := r.uri
		if len(shown) > 200 {
			shown = fmt.Sprintf("%s...(%d bytes)", shown[:60], len(r.uri))
		}
		parts = append(parts, fmt.Sprintf("%s %s from %s matched=%v {%s}", r.method, shown, r.remote, r.matched, r.b))
	}
	return fmt.Sprintf("%s threshold=%s addSource=%v parallel=%d: %s", lm.HandlerNames[b.kind], thresholdName(b.threshold), b.addSource, b.parallel, strings.Join(parts, " | "))
}

func genBatch(t *rapid.T) *batch {
	b := &batch{
		kind:      rapid.IntRange(0, 2).Draw(t, "handler"),
		threshold: rapid.SampledFrom([]slog.Level{logger.LevelDebug, logger.LevelInfo, logger.LevelInfo, logger.LevelWarn, logger.LevelError, logger.LevelFatal, -5, 1, 3, 5, 7, 11, 13, 17}).Draw(t, "threshold"),
		parallel:  rapid.SampledFrom([]int{1, 1, 2, 4, 8, 16}).Draw(t, "parallel"),
	}
	switch rapid.IntRange(0, 5).Draw(t, "logDestination") {
	case 0:
		b.sinkRejectsOver = rapid.SampledFrom([]int{1, 200, 512}).Draw(t, "rejectsOver") // the Error record with its stack is the long one
	case 1:
		b.sinkRejectsEvery = rapid.SampledFrom([]int{1, 2, 3, 5}).Draw(t, "rejectsEvery")
	}
	b.addSource = rapid.IntRange(0, 2).Draw(t, "addSource") == 0
	n := rapid.IntRange(1, 12).Draw(t, "nreqs")
	if b.parallel > 1 {
		n = rapid.IntRange(b.parallel, 2*b.parallel).Draw(t, "nreqsParallel")
	}
	haveAsterisk := false
	for i := 0; i < n; i++ {
		rq := &request{
			method:  rapid.SampledFrom([]string{"GET", "POST", "PUT", "DELETE", "PATCH", "HEAD"}).Draw(t, "method"),
			matched: rapid.IntRange(0, 4).Draw(t, "matched") > 0,
		}
		switch rapid.IntRange(0, 2).Draw(t, "remote") {
		case 0:
			rq.wantIP = fmt.Sprintf("192.0.2.%d", rapid.IntRange(1, 254).Draw(t, "v4"))
			rq.remote = rq.wantIP + ":" + strconv.Itoa(rapid.IntRange(1, 65535).Draw(t, "port"))
		case 1:
			rq.wantIP = fmt.Sprintf("2001:db8::%x", rapid.IntRange(1, 65535).Draw(t, "v6"))
			rq.remote = "[" + rq.wantIP + "]:" + strconv.Itoa(rapid.IntRange(1, 65535).Draw(t, "port"))
		default:
			rq.wantIP = "10.1.2.3"
			rq.remote = "10.1.2.3:1"
		}
		if rapid.IntRange(0, 3).Draw(t, "viaProxy") == 0 {
			rq.proxyIP = fmt.Sprintf("198.51.100.%d", rapid.IntRange(1, 254).Draw(t, "proxied"))
			rq.proxyHeader = rapid.SampledFrom([]string{"X-Client-IP", "X-Forwarded-For", "X-Forwarded-For", "X-Real-IP"}).Draw(t, "proxyHeader")
			rq.proxyValue = rq.proxyIP
			if rq.proxyHeader == "X-Forwarded-For" && rapid.Bool().Draw(t, "chain") {
				rq.proxyValue += ",203.0.113.7,203.0.113.8"
			}
		}
		tail := rapid.SampledFrom([]string{"", "?q=1", "?a=b&c=d", "/sub/path", "%20x", "?x=%22quoted%22"}).Draw(t, "uriTail")
		if rapid.IntRange(0, 3).Draw(t, "routeForGETOnly") == 0 {
			// a route registered for GET alone: any other method on its path - HEAD and OPTIONS included - is a request
			// like any other that matches nothing, and is logged with the method it came with
			rq.uri = fmt.Sprintf("/g/%d%s", i, strings.TrimPrefix(tail, "/sub/path"))
			rq.matched = rq.method == "GET"
			rq.getOnly = true
		} else if rq.matched {
			rq.uri = fmt.Sprintf("/h/%d%s", i, strings.TrimPrefix(tail, "/sub/path"))
		} else {
			rq.uri = fmt.Sprintf("/nope/%d%s", i, tail)
			if !haveAsterisk && rapid.IntRange(0, 5).Draw(t, "asteriskForm") == 0 {
				// the asterisk-form request target ("OPTIONS * HTTP/1.1", or any method when the server hands it on):
				// a request like any other, answered by the no-route handler
				rq.uri, haveAsterisk = "*", true
				rq.method = rapid.SampledFrom([]string{"OPTIONS", "GET"}).Draw(t, "asteriskMethod")
			}
		}
		if rq.uri != "*" && rapid.IntRange(0, 11).Draw(t, "longURI") == 0 {
			// a request target of many kilobytes (net/http takes up to a megabyte): REQ_BEG and REQ_END end with the target
			// and the request id, however long the line gets (round twenty-two)
			sep := "?"
			if strings.Contains(rq.uri, "?") {
				sep = "&"
			}
			rq.uri += sep + "pad=" + strings.Repeat("x", rapid.SampledFrom([]int{16000, 16384, 17000, 40000, 70000}).Draw(t, "padding"))
			rq.longURI = true
		}
		if b.kind != lm.HNano && rapid.IntRange(0, 5).Draw(t, "hostileURI") == 0 {
			rq.uri += rapid.SampledFrom([]string{"?q=a b", "?q=\"x\"", "?k=v w=z", "?=", "?tag=REQ_END tid=forged"}).Draw(t, "hostileTail")
		}
		bh := behaviour{}
		if rapid.IntRange(0, 2).Draw(t, "writesStatus") > 0 {
			bh.status = rapid.OneOf(rapid.SampledFrom([]int{200, 201, 204, 301, 400, 404, 500, 503, 599}), rapid.IntRange(200, 599)).Draw(t, "status")
			if bh.status == 204 || bh.status == 304 {
				bh.status = 202 // bodies are not allowed there; keep the generator simple
			}
		}
		bh.ctxDone = rapid.SampledFrom([]int{0, 0, 0, 1, 2}).Draw(t, "requestContextDone")
		bh.headers = rapid.SampledFrom([]int{0, 0, 0, 1, 2, 3}).Draw(t, "responseHeaders")
		bh.body = rapid.Bool().Draw(t, "body")
		if bh.body {
			bh.bodyKind = rapid.IntRange(0, 6).Draw(t, "bodyKind")
		}
		if rapid.IntRange(0, 2).Draw(t, "panics") == 0 {
			bh.panicKind = rapid.IntRange(1, numPanicKinds-1).Draw(t, "panicKind")
			bh.panicBefore = rapid.Bool().Draw(t, "panicBefore")
			bh.pstr = rapid.SampledFrom([]string{"expected", "boom with spaces", "k=v", "\"quoted\"", "", "line\nbreak", "tid=forged"}).Draw(t, "pstr")
			if b.kind == lm.HNano {
				bh.pstr = rapid.SampledFrom([]string{"expected", "boom", "x=y"}).Draw(t, "pstrNano")
			}
			bh.pint = rapid.IntRange(-5, 500).Draw(t, "pint")
			if rapid.IntRange(0, 7).Draw(t, "deepPanic") == 0 {
				bh.deep = rapid.SampledFrom([]int{120, 200, 400, 1500}).Draw(t, "callsDown")
			}
		} else if rapid.IntRange(0, 11).Draw(t, "invalidCode") == 0 {
			bh.invalidCode = rapid.SampledFrom([]int{99, 1000, -1, 7, 1 << 20}).Draw(t, "code")
			bh.status, bh.body = 0, false
			bh.panicKind, bh.panicBefore, bh.pstr = pString, true, fmt.Sprintf("invalid WriteHeader code %d", bh.invalidCode)
		} else if rapid.IntRange(0, 11).Draw(t, "aborts") == 0 {
			bh.panicKind = pAbort
			bh.panicBefore = rapid.Bool().Draw(t, "abortBefore")
		}
		if bh.invalidCode == 0 && bh.panicKind != pAbort && rapid.IntRange(0, 4).Draw(t, "flushesFirst") == 0 {
			bh.flush = rapid.IntRange(1, 3).Draw(t, "flushHow")
			bh.status = 0 // a status after the flush would come too late on a writer that flushed: not this harness' business
		}
		bh.bareOrigin = rapid.IntRange(0, 3).Draw(t, "writerUnderTheMuxIsBare") == 0
		rq.b = bh
		b.reqs = append(b.reqs, rq)
		if rq.matched && bh.flush == 0 && bh.panicKind == pNone && bh.status == 0 && !bh.body && bh.ctxDone == 0 && rapid.IntRange(0, 3).Draw(t, "forwards") == 0 {
			// this handler writes nothing itself: it forwards another request through the Mux with its own Store.W
			inner := &request{method: "GET", uri: fmt.Sprintf("/h/f%d", i), remote: rq.remote, wantIP: rq.wantIP, matched: true, viaForward: true,
				b: behaviour{status: rapid.SampledFrom([]int{0, 201, 404, 418, 503}).Draw(t, "forwardedStatus"), body: rapid.Bool().Draw(t, "forwardedBody")}}
			rq.fwd = inner
			b.reqs = append(b.reqs, inner)
		}
	}
	return b
}

func runBatch(b *batch, realServer bool) string {
	sink := &lm.Sink{RejectOver: b.sinkRejectsOver, RejectEvery: b.sinkRejectsEvery}
	lg := logger.New(lm.NewHandler(b.kind, sink, logger.NewOptions(b.threshold, false, b.addSource)))
	mux := httpd.NewMux()
	theMux = mux
	mux.HandleRelay(lg.Relay)
	mux.Handle("/h/:id", httpd.MethodAll, handlerFor())
	mux.Handle("/h/:id/*", httpd.MethodAll, handlerFor())
	mux.Handle("/g/:id", "GET", handlerFor())
	serve := func(rq *request) {
		u, err := url.ParseRequestURI(rq.uri)
		if err != nil {
			u = &url.URL{Path: rq.uri}
		}
		req := &http.Request{Method: rq.method, URL: u, RequestURI: rq.uri, RemoteAddr: rq.remote, Header: http.Header{}, Proto: "HTTP/1.1", ProtoMajor: 1, ProtoMinor: 1, Body: http.NoBody}
		if rq.proxyHeader != "" {
			req.Header.Set(rq.proxyHeader, rq.proxyValue)
		}
		ctx := context.WithValue(context.Background(), ctxKey{}, rq)
		if rq.b.ctxDone == 1 {
			var cancel context.CancelFunc
			ctx, cancel = context.WithCancel(ctx)
			cancel()
		}
		req = req.WithContext(ctx)
		rec := httptest.NewRecorder()
		var w http.ResponseWriter = rec
		if rq.b.bareOrigin {
			w = bareWriter{rec}
		}
		func() {
			defer func() { rq.escaped = recover() }()
			mux.ServeHTTP(w, req)
		}()
		rq.code = rec.Code
		rq.bodyText = rec.Body.String()
	}
	if b.parallel <= 1 {
		for _, rq := range b.reqs {
			if !rq.viaForward {
				serve(rq)
			}
		}
	} else {
		var wg sync.WaitGroup
		ch := make(chan *request)
		for i := 0; i < b.parallel; i++ {
			wg.Add(1)
			go func() {
				defer wg.Done()
				for rq := range ch {
					serve(rq)
				}
			}()
		}
		for _, rq := range b.reqs {
			if !rq.viaForward {
				ch <- rq
			}
		}
		close(ch)
		wg.Wait()
	}
	// ---- responses ----
	for _, rq := range b.reqs {
		if rq.matched && rq.b.panicKind == pAbort {
			continue // outside the statement: whatever happens to an aborted request itself is accepted
		}
		if rq.escaped != nil {
			return fmt.Sprintf("request %s %s {%s}: panic escaped ServeHTTP: %v", rq.method, rq.uri, rq.b, rq.escaped)
		}
		if rq.viaForward {
			rq.code = rq.b.wantCode(true) // it has no response of its own: what it wrote went to the outer request's client
			continue
		}
		if want := rq.wantCode(); rq.code != want {
			return fmt.Sprintf("request %s %s {%s}: response status %d, want %d", rq.method, rq.uri, rq.b, rq.code, want)
		}
	}
	// ---- records ----
	type seen struct {
		beg, end, errs []int
	}
	byTid := map[string]*seen{}
	var recs []record
	for i, w := range sink.Writes {
		r, err := parseRecord(b.kind, w)
		if err != nil {
			return fmt.Sprintf("record #%d does not parse (%v): %q", i, err, clip(w))
		}
		recs = append(recs, r)
		tid := r.fields["tid"]
		if tid == "" {
			return fmt.Sprintf("record #%d carries no request id: %q", i, clip(w))
		}
		s := byTid[tid]
		if s == nil {
			s = &seen{}
			byTid[tid] = s
		}
		switch {
		case r.fields["tag"] == "REQ_BEG":
			s.beg = append(s.beg, i)
		case r.fields["tag"] == "REQ_END":
			s.end = append(s.end, i)
		case r.level == "ERROR":
			s.errs = append(s.errs, i)
		default:
			return fmt.Sprintf("record #%d is neither REQ_BEG, REQ_END nor an Error record: %q", i, clip(w))
		}
	}
	wantInfo := b.threshold <= logger.LevelInfo
	wantErr := b.threshold <= logger.LevelError
	total := 0
	ids := map[string]bool{}
	for _, rq := range b.reqs {
		what := fmt.Sprintf("request %s %s {%s}", rq.method, rq.uri, rq.b)
		tid := rq.seenID
		if rq.matched && rq.b.panicKind == pAbort {
			// its own records are not judged, only accounted for
			if s := byTid[tid]; s != nil && tid != "" {
				total += len(s.beg) + len(s.end) + len(s.errs)
				ids[tid] = true
			}
			continue
		}
		if !rq.matched {
			// the default no-route handler does not tell us the id: find it through the REQ_BEG record of this URI
			for id, s := range byTid {
				for _, i := range s.beg {
					if recs[i].fields["path"] == rq.uri {
						tid = id
					}
				}
			}
			if tid == "" {
				if wantInfo {
					return what + ": no REQ_BEG record carries this URI"
				}
				continue
			}
		}
		if tid == "" {
			return what + ": the handler never ran"
		}
		if ids[tid] {
			return what + ": request id " + tid + " is shared with another request"
		}
		ids[tid] = true
		s := byTid[tid]
		if s == nil {
			s = &seen{}
		}
		nb, ne, nx := 0, 0, 0
		if wantInfo {
			nb, ne = 1, 1
		}
		panicked := rq.matched && rq.b.panicKind != pNone
		if panicked && wantErr {
			nx = 1
		}
		if len(s.beg) != nb || len(s.end) != ne || len(s.errs) != nx {
			return fmt.Sprintf("%s (id %s): %d REQ_BEG, %d REQ_END, %d Error records, want %d/%d/%d", what, tid, len(s.beg), len(s.end), len(s.errs), nb, ne, nx)
		}
		total += nb + ne + nx
		if wantInfo {
			bg, en := recs[s.beg[0]], recs[s.end[0]]
			if s.beg[0] > s.end[0] {
				return what + ": REQ_END was written before REQ_BEG"
			}
			for _, r := range []record{bg, en} {
				if r.level != "INFO" {
					return fmt.Sprintf("%s: %s record has level %s", what, r.fields["tag"], r.level)
				}
				ipOK := r.fields["ip"] == rq.wantIP || (rq.proxyIP != "" && r.fields["ip"] == rq.proxyIP)
				if !ipOK || r.fields["method"] != rq.method || r.fields["path"] != rq.uri {
					return fmt.Sprintf("%s: %s record says ip=%q method=%q path=%q, want %q %q %q (header %s: %q)", what, r.fields["tag"], r.fields["ip"], r.fields["method"], r.fields["path"], rq.wantIP, rq.method, rq.uri, rq.proxyHeader, rq.proxyValue)
				}
			}
			if bg.fields["ip"] != en.fields["ip"] {
				return fmt.Sprintf("%s: REQ_BEG says ip=%q, REQ_END says ip=%q", what, bg.fields["ip"], en.fields["ip"])
			}
			if en.fields["code"] != strconv.Itoa(rq.code) {
				return fmt.Sprintf("%s: REQ_END says code=%s, the client received %d", what, en.fields["code"], rq.code)
			}
			if d, err := strconv.Atoi(en.fields["dur"]); err != nil || d < 0 {
				return fmt.Sprintf("%s: REQ_END dur=%q is not a non-negative integer", what, en.fields["dur"])
			}
		}
		if nx == 1 {
			er := recs[s.errs[0]]
			node := rq.b.panicNode()
			switch b.kind {
			case lm.HJson:
				if er.panicJ == nil {
					return what + ": the Error record has no panic member: " + clip(er.raw)
				}
				if rq.b.composite() {
					if got := er.panicJ.String(); got != fmt.Sprintf(`{"Code":%d,"Msg":%s}`, rq.b.pint, strconv.Quote(rq.b.pstr)) && !strings.Contains(got, strconv.Itoa(rq.b.pint)) {
						return fmt.Sprintf("%s: panic member %s does not carry the panic value %v", what, got, rq.b.panicValue())
					}
				} else if m := lm.Match(lm.ExpectNode(node)[0].Exp, *er.panicJ, "$.panic"); m != "" {
					return what + ": " + m
				}
			case lm.HText:
				exp := lm.ExpectTextNode(nil, node)[0]
				got, ok := er.fields["panic"]
				if !ok {
					return what + ": the Error record has no panic token: " + clip(er.raw)
				}
				if exp.Kind == lm.TVExact && got != exp.Text {
					return fmt.Sprintf("%s: panic=%q, want %q", what, got, exp.Text)
				}
				if rq.b.composite() && !strings.Contains(got, strconv.Itoa(rq.b.pint)) {
					return fmt.Sprintf("%s: panic=%q does not carry the struct value", what, got)
				}
			default:
				want := fmt.Sprint(rq.b.panicValue())
				if rq.b.panicKind == pNil {
					want = panicNilText
				}
				if mp := er.fields["msg+panic"]; !strings.HasSuffix(mp, " "+want) && mp != want {
					return fmt.Sprintf("%s: the Nano Error record does not end with the panic value %q before the id: %q", what, want, clip([]byte(mp[max(0, len(mp)-120):])))
				}
			}
		}
	}
	if total != len(recs) {
		return fmt.Sprintf("%d records written, the requests account for %d", len(recs), total)
	}
	return ""
}

func clip(b []byte) string {
	if len(b) > 300 {
		return string(b[:300]) + "…"
	}
	return string(b)
}

func TestBatches(t *testing.T) {
	rt.Check(t, 600, 400000, func(t *rapid.T) {
		b := genBatch(t)
		if msg := runBatch(b, false); msg != "" {
			t.Fatalf("%s\nbatch: %s", msg, b.render())
		}
		nt := b.parallel >= 4
		for _, rq := range b.reqs {
			if rq.matched && rq.b.panicKind == pAbort {
				ev.Label("history_contains_ErrAbortHandler")
				continue
			}
			if rq.matched && rq.b.ctxDone > 0 {
				ev.Label("request_context_done_while_the_handler_runs")
			}
			if rq.matched && rq.b.panicKind != pNone {
				ev.Label("panic:" + panicKindNames[rq.b.panicKind])
				if !rq.b.panicBefore && (rq.b.status != 0 || rq.b.body) {
					ev.Label("panic_after_partial_response")
					nt = true
				}
				if rq.b.panicKind != pString {
					nt = true
				}
				if rq.b.panicKind == pWrapsAbort || rq.b.panicKind == pIsAbort {
					ev.Label("panic_value_related_to_ErrAbortHandler_but_not_it")
				}
			}
			if !rq.matched {
				ev.Label("unmatched_route")
			}
			if rq.longURI {
				ev.Label("request_target_longer_than_16_KiB_or_nearly")
			}
			if rq.matched && rq.b.panicKind != pNone && rq.b.deep > 0 {
				ev.Label("panic_from_deep_in_the_stack")
			}
			if rq.matched && rq.b.flush > 0 {
				if rq.b.bareOrigin {
					ev.Label("handler_flushes_first_on_a_writer_that_cannot_flush")
				} else {
					ev.Label("handler_flushes_first")
				}
			}
			if rq.getOnly && !rq.matched {
				ev.Label("other_method_on_a_GET-only_route:" + rq.method)
			}
			if rq.proxyHeader != "" {
				ev.Label("request_names_another_client_address_in_" + rq.proxyHeader)
			}
		}
		if b.sinkRejectsOver > 0 || b.sinkRejectsEvery > 0 {
			ev.Label("log_destination_refuses_some_records")
		}
		if b.addSource {
			ev.Label("logger_records_call_sites_(addSource)")
		}
		ev.Label("handler:" + lm.HandlerNames[b.kind] + "/" + thresholdName(b.threshold))
		ev.LabelN("requests", int64(len(b.reqs)))
		ev.Case(nt, ev.Hash(b.render()), b.render)
	})
}

// TestRealServer sends a fixed set of behaviours through a real net/http server: the client must see the status the log reports.
func TestRealServer(t *testing.T) {
	sink := &lm.Sink{}
	lg := logger.New(logger.NewJsonHandler(sink, logger.NewOptions(logger.LevelInfo, false, false)))
	mux := httpd.NewMux()
	mux.HandleRelay(lg.Relay)
	behaviours := map[string]behaviour{
		"0": {}, "1": {status: 201, body: true}, "2": {panicKind: pString, panicBefore: true, pstr: "expected"}, "3": {status: 202, panicKind: pError, pstr: "late"},
		"4": {body: true, panicKind: pInt, pint: 7}, "8": {body: true, bodyKind: 1, panicKind: pString, pstr: "after an empty write"}, "9": {body: true, bodyKind: 1}, "5": {panicKind: pNil, panicBefore: true}, "6": {status: 503}, "7": {panicKind: pTypedNil},
		// bodies that reach the connection through io.Copy / io.WriteString / fmt.Fprintf (the real connection offers
		// io.ReaderFrom and io.StringWriter, which a recorder does not), with and without a panic afterwards
		"10": {body: true, bodyKind: 4, panicKind: pString, pstr: "after a streamed body"}, "11": {body: true, bodyKind: 4}, "12": {body: true, bodyKind: 5, panicKind: pInt, pint: 3},
		"13": {body: true, bodyKind: 6, panicKind: pError, pstr: "after Fprintf"}, "14": {status: 206, body: true, bodyKind: 4, panicKind: pString, pstr: "x"},
		// a streaming handler that flushes the header out first; the connection has sent its 200 by the time the handler panics
		"15": {flush: 1, panicKind: pString, pstr: "after a flush"}, "16": {flush: 2, body: true}, "17": {flush: 3, panicKind: pInt, pint: 9}, "18": {flush: 1},
		// informational responses before the final status: 103 then an explicit status, 102 then a body under the implicit
		// 200, 103 then nothing at all, and a panic after the hints - before or after a final status
		"19": {early: 103, status: 404}, "20": {early: 103, status: 200, body: true, panicKind: pString, pstr: "after hints and a body"}, "21": {early: 102, body: true},
		"22": {early: 103}, "23": {early: 103, panicKind: pError, pstr: "after the hints, before any final status"}, "24": {early: 102, status: 500, body: true},
	}
	mux.Handle("/h/:id", httpd.MethodAll, func(s *httpd.Store) {
		b := behaviours[s.RouteParam("id")]
		if b.panicKind != pNone && b.panicBefore {
			doPanic(b)
		}
		switch b.flush {
		case 1:
			s.W.Flush()
		case 2:
			s.W.FlushError()
		case 3:
			http.NewResponseController(s.W).Flush()
		}
		if b.early != 0 {
			s.W.Header().Set("Link", "</style.css>; rel=preload; as=style")
			s.W.WriteHeader(b.early)
		}
		if b.status != 0 {
			s.W.WriteHeader(b.status)
		}
		if b.body {
			writeBody(s, b)
		}
		if b.panicKind != pNone {
			doPanic(b)
		}
	})
	srv := httptest.NewUnstartedServer(mux)
	srv.Config.ErrorLog = nil
	srv.Start()
	defer srv.Close()
	for id, b := range behaviours {
		resp, err := http.Get(srv.URL + "/h/" + id)
		if err != nil {
			t.Errorf("behaviour %s {%s}: client error %v", id, b, err)
			continue
		}
		io.Copy(io.Discard, resp.Body)
		resp.Body.Close()
		if want := b.wantCode(true); resp.StatusCode != want {
			t.Errorf("behaviour %s {%s}: client received %d, want %d", id, b, resp.StatusCode, want)
		}
		ev.Case(b.panicKind != pNone, ev.Hash("real", id), func() string { return fmt.Sprintf("real server, behaviour {%s} -> %d", b, resp.StatusCode) })
	}
	srv.Close()
	// every END code equals what a client saw for that path
	for _, w := range sink.Writes {
		r, err := parseRecord(lm.HJson, w)
		if err != nil {
			t.Errorf("record does not parse: %v: %q", err, clip(w))
			continue
		}
		if r.fields["tag"] == "REQ_END" {
			id := strings.TrimPrefix(r.fields["path"], "/h/")
			if want := strconv.Itoa(behaviours[id].wantCode(true)); r.fields["code"] != want {
				t.Errorf("REQ_END for %s says code=%s, the client received %s", r.fields["path"], r.fields["code"], want)
			}
		}
	}
	_ = bytes.Equal
}
