// C10 — Command-line grammar: flags, values and trailing args are split as documented.
package c10

import (
	"bytes"
	"encoding/base64"
	"encoding/json"
	"fmt"
	"math"
	"os"
	"path/filepath"
	"reflect"
	"strconv"
	"strings"
	"testing"
	"time"

	"github.com/whoisnian/glb/config"
	"pgregory.net/rapid"

	"verif/harness/internal/ev"
	"verif/harness/internal/rt"
)

var (
	tmpDir     string
	goodConfig string
	badConfig  string
)

func TestMain(m *testing.M) {
	ev.Rule("cases = argument vectors from a token grammar (well-formed flags in the four spellings, bool flags, repeats, values that look like flags, '--', first non-flag, near-misses, unknown names, missing final value, " +
		"unparsable values per type, '=' inside values, -config with an existing / missing / invalid file, arbitrary byte tokens) parsed by a fresh FlagSet over two struct shapes; " +
		"oracle = an independent reference reader of the documented grammar: same error/no-error verdict, same Args(), ShowUsage() and field values; " +
		"non-trivial = at least 2 tokens with at least one flag token; distinct by (shape, argv)")
	ev.Assume("textual values are judged parsable by strconv/time/base64 with the conventions the Value types document (base-prefixed integers accepted, empty text = zero value)")
	ev.Assume("after Parse returns an error the oracle is silent on Args() and field values")
	for _, e := range os.Environ() {
		if k, _, _ := strings.Cut(e, "="); strings.HasPrefix(k, "CFG_") {
			os.Unsetenv(k)
		}
	}
	var err error
	tmpDir, err = os.MkdirTemp("", "c10-")
	if err != nil {
		panic(err)
	}
	os.Setenv("HOME", filepath.Join(tmpDir, "emptyhome"))
	os.Mkdir(filepath.Join(tmpDir, "emptyhome"), 0o755)
	goodConfig = filepath.Join(tmpDir, "good.json")
	badConfig = filepath.Join(tmpDir, "bad.json")
	os.WriteFile(goodConfig, []byte(`{"Name":"from-json","Nested":{"Port":8081},"Num":11}`), 0o644)
	os.WriteFile(badConfig, []byte(`{"Name":`), 0o644)
	code := m.Run()
	ev.Flush()
	os.RemoveAll(tmpDir)
	os.Exit(code)
}

// ---- struct shapes ----

type shapeA struct {
	Debug   bool          `flag:"d,false,Enable debug output"`
	Verbose bool          `flag:"verbose,true,Verbose by default"`
	Num     int           `flag:"n,7,A number"`
	Big     int64         `flag:"big,-1,An int64"`
	U       uint          `flag:"u,3,A uint"`
	U64     uint64        `flag:"u64,0,A uint64"`
	Name    string        `flag:"name,def,A string"`
	Ratio   float64       `flag:"ratio,0.5,A float"`
	Wait    time.Duration `flag:"wait,1s,A duration"`
	Data    []byte        `flag:"data,aGk=,Bytes"`
	Nested  struct {
		Port int    `flag:"port,80,Nested int"`
		Host string `flag:"|host|h,o|Nested string with commas"`
	}
	X string `flag:"x"`
	// more one-letter switches: a token made of their letters (-dv, -qq) names no flag
	Quiet bool `flag:"q"`
	V     bool `flag:"v"`
}

type shapeB struct {
	Alpha string
	Beta  bool
	N1    int    `flag:"1"`
	Dash  string `flag:"a-b"`
	Uni   string `flag:"é"`
}

type flagDef struct {
	name string
	kind string // bool int int64 uint uint64 string float64 duration bytes
	def  string
	get  func(p any) any
}

var defsA = []flagDef{
	{"d", "bool", "false", func(p any) any { return p.(*shapeA).Debug }},
	{"verbose", "bool", "true", func(p any) any { return p.(*shapeA).Verbose }},
	{"n", "int", "7", func(p any) any { return p.(*shapeA).Num }},
	{"big", "int64", "-1", func(p any) any { return p.(*shapeA).Big }},
	{"u", "uint", "3", func(p any) any { return p.(*shapeA).U }},
	{"u64", "uint64", "0", func(p any) any { return p.(*shapeA).U64 }},
	{"name", "string", "def", func(p any) any { return p.(*shapeA).Name }},
	{"ratio", "float64", "0.5", func(p any) any { return p.(*shapeA).Ratio }},
	{"wait", "duration", "1s", func(p any) any { return p.(*shapeA).Wait }},
	{"data", "bytes", "aGk=", func(p any) any { return p.(*shapeA).Data }},
	{"port", "int", "80", func(p any) any { return p.(*shapeA).Nested.Port }},
	{"host", "string", "h,o", func(p any) any { return p.(*shapeA).Nested.Host }},
	{"x", "string", "", func(p any) any { return p.(*shapeA).X }},
	{"q", "bool", "", func(p any) any { return p.(*shapeA).Quiet }},
	{"v", "bool", "", func(p any) any { return p.(*shapeA).V }},
}

var defsB = []flagDef{
	{"alpha", "string", "", func(p any) any { return p.(*shapeB).Alpha }},
	{"beta", "bool", "", func(p any) any { return p.(*shapeB).Beta }},
	{"1", "int", "", func(p any) any { return p.(*shapeB).N1 }},
	{"a-b", "string", "", func(p any) any { return p.(*shapeB).Dash }},
	{"é", "string", "", func(p any) any { return p.(*shapeB).Uni }},
}

// fields the good config file sets (shape A only): JSON sits between default and command line
var jsonA = map[string]string{"name": "from-json", "port": "8081", "n": "11"}

func kindOf(defs []flagDef, name string) (string, bool) {
	switch name {
	case "help":
		return "bool", true
	case "config":
		return "string", true
	}
	for _, d := range defs {
		if d.name == name {
			return d.kind, true
		}
	}
	return "", false
}

// parseTyped is the value model: text -> typed value, ok=false when unparsable.
func parseTyped(kind, s string) (any, bool) {
	switch kind {
	case "bool":
		if s == "" {
			return false, true
		}
		v, err := strconv.ParseBool(s)
		return v, err == nil
	case "int":
		if s == "" {
			return int(0), true
		}
		v, err := strconv.ParseInt(s, 0, strconv.IntSize)
		return int(v), err == nil
	case "int64":
		if s == "" {
			return int64(0), true
		}
		v, err := strconv.ParseInt(s, 0, 64)
		return v, err == nil
	case "uint":
		if s == "" {
			return uint(0), true
		}
		v, err := strconv.ParseUint(s, 0, strconv.IntSize)
		return uint(v), err == nil
	case "uint64":
		if s == "" {
			return uint64(0), true
		}
		v, err := strconv.ParseUint(s, 0, 64)
		return v, err == nil
	case "string":
		return s, true
	case "float64":
		if s == "" {
			return float64(0), true
		}
		v, err := strconv.ParseFloat(s, 64)
		return v, err == nil
	case "duration":
		if s == "" {
			return time.Duration(0), true
		}
		v, err := time.ParseDuration(s)
		return v, err == nil
	case "bytes":
		if s == "" {
			return []byte(nil), true
		}
		v, err := base64.StdEncoding.DecodeString(s)
		return v, err == nil
	}
	return nil, false
}

// ---- reference reader of the documented grammar ----

type modelResult struct {
	err    string            // "" = success, else class of error
	values map[string]string // effective text per flag (last occurrence)
	rest   []string
	nflags int
}

func readArgv(defs []flagDef, argv []string) modelResult {
	res := modelResult{values: map[string]string{}}
	i := 0
	for i < len(argv) {
		tok := argv[i]
		if len(tok) < 2 || tok[0] != '-' {
			break // first argument that is not a flag ("", "-", "x")
		}
		body := tok[1:]
		if body == "-" {
			i++ // literal "--": consumed, parsing stops
			break
		}
		if body[0] == '-' {
			body = body[1:]
		}
		if body == "" || body[0] == '-' || body[0] == '=' {
			res.err = "syntax"
			return res
		}
		i++
		name, value, hasValue := body, "", false
		if k := strings.IndexByte(body, '='); k >= 0 {
			name, value, hasValue = body[:k], body[k+1:], true
		}
		kind, known := kindOf(defs, name)
		if !known {
			res.err = "unknown"
			return res
		}
		if !hasValue {
			if kind == "bool" {
				value = "true"
			} else if i < len(argv) {
				value = argv[i]
				i++
			} else {
				res.err = "missing"
				return res
			}
		}
		res.values[name] = value
		res.nflags++
	}
	res.rest = argv[i:]
	return res
}

func sameValue(a, b any) bool {
	if fa, ok := a.(float64); ok {
		fb, ok2 := b.(float64)
		return ok2 && (fa == fb && math.Signbit(fa) == math.Signbit(fb) || math.IsNaN(fa) && math.IsNaN(fb))
	}
	if ba, ok := a.([]byte); ok {
		bb, ok2 := b.([]byte)
		return ok2 && bytes.Equal(ba, bb)
	}
	return reflect.DeepEqual(a, b)
}

// checkVector parses argv with a fresh FlagSet and compares with the model. shape: 0 = A, 1 = B.
func checkVector(shape int, argv []string) (msg string, class string, nflags int) {
	return checkVectorEnv(shape, argv, nil)
}

// checkVectorEnv also sets the CFG_* environment variable of some flags (env: flag name -> text). The environment sits
// between the configuration file and the command line: a flag given on the command line is assigned its command-line
// text whatever the environment says, and the environment's text is only interpreted for flags the vector leaves alone.
func checkVectorEnv(shape int, argv []string, env map[string]string) (msg string, class string, nflags int) {
	var ptr any
	var defs []flagDef
	if shape == 0 {
		ptr, defs = &shapeA{}, defsA
	} else {
		ptr, defs = &shapeB{}, defsB
	}
	fs, err := config.NewFlagSet(ptr)
	if err != nil {
		return "NewFlagSet failed: " + err.Error(), "", 0
	}
	for name, text := range env {
		if flg := fs.Lookup(name); flg != nil && flg.Env != "" {
			os.Setenv(flg.Env, text)
			defer os.Unsetenv(flg.Env)
		}
	}
	in := append([]string(nil), argv...)
	var perr error
	var panicked any
	func() {
		defer func() { panicked = recover() }()
		perr = fs.Parse(in)
	}()
	if panicked != nil {
		return fmt.Sprintf("Parse panicked: %v", panicked), "panic", 0
	}
	m := readArgv(defs, argv)
	// value-level and config-file errors of the effective assignments
	jsonLayer := map[string]string{}
	if m.err == "" {
		if cp, ok := m.values["config"]; ok && cp != "" {
			data, rerr := os.ReadFile(filepath.Clean(cp))
			if strings.HasPrefix(cp, "~") {
				rerr = fmt.Errorf("home is empty")
			}
			if rerr != nil {
				m.err = "configfile"
			} else {
				// the file has to unmarshal into a copy of the struct
				cp2 := reflect.New(reflect.TypeOf(ptr).Elem()).Interface()
				if json.Unmarshal(data, cp2) != nil {
					m.err = "configjson"
				} else if shape == 0 && filepath.Clean(cp) == goodConfig {
					jsonLayer = jsonA
				}
			}
		}
	}
	if m.err == "" {
		for name, text := range m.values {
			kind, _ := kindOf(defs, name)
			if _, ok := parseTyped(kind, text); !ok {
				m.err = "value"
			}
		}
		for name, text := range env {
			if _, onCli := m.values[name]; onCli {
				continue // overridden by the command line: its text is never interpreted
			}
			kind, _ := kindOf(defs, name)
			if _, ok := parseTyped(kind, text); !ok {
				m.err = "value"
			}
		}
	}
	if (perr != nil) != (m.err != "") {
		return fmt.Sprintf("Parse(%q) error = %v, reference reader says %q", argv, perr, m.err), m.err, m.nflags
	}
	if m.err != "" {
		return "", "err_" + m.err, m.nflags
	}
	got := fs.Args()
	if len(got) != len(m.rest) {
		return fmt.Sprintf("Parse(%q): Args() = %q, want %q", argv, got, m.rest), "ok", m.nflags
	}
	for i := range got {
		if got[i] != m.rest[i] {
			return fmt.Sprintf("Parse(%q): Args() = %q, want %q", argv, got, m.rest), "ok", m.nflags
		}
	}
	wantHelp, _ := parseTyped("bool", m.values["help"])
	if fs.ShowUsage() != wantHelp.(bool) {
		return fmt.Sprintf("Parse(%q): ShowUsage() = %v, want %v", argv, fs.ShowUsage(), wantHelp), "ok", m.nflags
	}
	for _, d := range defs {
		text, from := d.def, "default"
		if j, ok := jsonLayer[d.name]; ok {
			text, from = j, "config file"
		}
		if v, ok := env[d.name]; ok {
			text, from = v, "environment"
		}
		if v, ok := m.values[d.name]; ok {
			text, from = v, "command line"
		}
		want, _ := parseTyped(d.kind, text)
		if g := d.get(ptr); !sameValue(g, want) {
			return fmt.Sprintf("Parse(%q): field of flag -%s = %#v, want %#v (%s text %q)", argv, d.name, g, want, from, text), "ok", m.nflags
		}
	}
	helpToken := false
	for _, a := range argv {
		if h := strings.TrimLeft(a, "-"); h == "help" || strings.HasPrefix(h, "help=") {
			helpToken = true // wherever it stands: this harness must not be the one that makes the test process print and exit
		}
	}
	if !helpToken {
		// the same vector as a program meets it: os.Args, through FromCommandLine (which hands back Args()); without
		// -help, which makes that entry point print the usage and exit
		ptr2 := reflect.New(reflect.TypeOf(ptr).Elem()).Interface()
		old := os.Args
		os.Args = append([]string{"prog"}, argv...)
		rest, err := config.FromCommandLine(ptr2)
		os.Args = old
		if err != nil {
			return fmt.Sprintf("FromCommandLine() with os.Args[1:]=%q returned %v; Parse of the same vector returned nil", argv, err), "ok", m.nflags
		}
		if strings.Join(rest, "\x00") != strings.Join(m.rest, "\x00") || len(rest) != len(m.rest) {
			return fmt.Sprintf("FromCommandLine() with os.Args[1:]=%q returned the arguments %q, want %q", argv, rest, m.rest), "ok", m.nflags
		}
		ev.Label("vector_also_through_FromCommandLine")
		for _, a := range argv {
			if a == "" {
				ev.Label("vector_with_an_empty_token_through_FromCommandLine")
				break
			}
		}
		for _, d := range defs {
			if g, g2 := d.get(ptr), d.get(ptr2); !sameValue(g, g2) {
				return fmt.Sprintf("FromCommandLine() with os.Args[1:]=%q: field of flag -%s = %#v, Parse of the same vector gives %#v", argv, d.name, g2, g), "ok", m.nflags
			}
		}
	}
	return "", "ok", m.nflags
}

// ---- generators ----

var goodValues = map[string][]string{
	"bool": {"true", "false", "1", "0", "T", "f", "TRUE", ""},
	// integer texts are read like Go literals, as the flag package reads them: 0x, 0o, 0b, a leading 0, underscores
	"int":      {"0", "42", "-7", "9223372036854775807", "-9223372036854775808", "+5", "", "0x10", "-0x8", "0b101", "0o17", "017", "0644", "-010", "1_000", "0X1f"},
	"int64":    {"0", "42", "-7", "9223372036854775807", "-9223372036854775808", "", "0x7fffffffffffffff", "0777", "0b1", "1_0"},
	"uint":     {"0", "42", "18446744073709551615", "", "0xffffffffffffffff", "010", "0o7", "0b11"},
	"uint64":   {"0", "42", "18446744073709551615", "", "0xff", "0644", "1_000_000"},
	"string":   {"", "v", "a=b", "=", "-n", "--", "-", "x y", "é", "--name=v", "\x00", "\xff\xfe", "a,b|c", "\"q\"", "'q'", "\"\"", "''", "\"", "'", "\"a'", "`x`", "$HOME", "%s", "a\\b"},
	"float64":  {"0", "1.5", "-2e10", "NaN", "Inf", "-Inf", "1e-320", "", ".5"},
	"duration": {"0", "1s", "1h2m3.5s", "-5ms", "", "2562047h47m16.854775807s"},
	"bytes":    {"", "aGk=", "AA==", "d2hvaXNuaWFu", "/+8="},
}

var badValues = map[string][]string{
	"bool":     {"yes", "2", "tru", " true", "-d", "\"true\"", "'1'"},
	"int":      {"abc", "1.5", "9223372036854775808", "--", "-", "1 ", "0x", "\"5\"", "'5'", "\"\"", "08", "09", "1__0", "_1", "1_", "0b2"},
	"int64":    {"abc", "1e3", "-9223372036854775809", "-n"},
	"uint":     {"-1", "abc", "18446744073709551616", "+-1"},
	"uint64":   {"-1", "abc", "18446744073709551616"},
	"float64":  {"abc", "1.2.3", "--", "1e", "0x"},
	"duration": {"1", "abc", "1 s", "5", "1d"},
	"bytes":    {"a", "====", "aGk", "a b=", "-_-_"},
}

func genTokens(defs []flagDef, shape int) *rapid.Generator[[]string] {
	names := []string{"help", "config"}
	for _, d := range defs {
		names = append(names, d.name)
	}
	nearMiss := []string{"-", "--", "---x", "---", "-=", "-x=", "--=v", "-=v", "=", "--x--", "-n=", "-zzz", "--zzz=1", "-nn", "-N", " -n", "-n ", "-help=maybe", "--d=", "-d=false", "-config", "-config=", "--config=" + "/nonexistent/c.json",
		"", "x", "-é", "--é=1", "-1", "-1=2", "-a-b", "--a-b=--", "-a", "-a=b", "-alpha", "-beta", "-beta=0", "--beta", "-verbose=false", "-\x00", "-n\x00=1",
		// tokens made of the letters of one-letter switches (getopt would take them for a cluster; this grammar has none)
		"-dv", "-vd", "-dq", "-qq", "-dd", "-dvq", "--dv", "-dn", "-d5", "-dv=true", "-vvv", "-qv=0"}
	flagTok := rapid.Custom(func(t *rapid.T) []string {
		name := rapid.SampledFrom(names).Draw(t, "name")
		kind, _ := kindOf(defs, name)
		dashes := rapid.SampledFrom([]string{"-", "-", "--"}).Draw(t, "dashes")
		var val string
		switch rapid.IntRange(0, 9).Draw(t, "valclass") {
		case 0:
			if bv := badValues[kind]; len(bv) > 0 {
				val = rapid.SampledFrom(bv).Draw(t, "bad")
			} else {
				val = rapid.SampledFrom(goodValues[kind]).Draw(t, "good")
			}
		case 1:
			val = rapid.SampledFrom(nearMiss).Draw(t, "nearmiss-as-value")
		default:
			val = rapid.SampledFrom(goodValues[kind]).Draw(t, "good")
		}
		if rapid.IntRange(0, 11).Draw(t, "caseVariant") == 0 {
			// a name that differs from a defined one by letter case only (-Debug, --VERBOSE, -Help): not a defined flag
			if v := rapid.SampledFrom([]string{strings.ToUpper(name), strings.ToUpper(name[:1]) + name[1:], strings.ToUpper(name[:1]) + strings.ToLower(name[1:])}).Draw(t, "variant"); v != name {
				name = v
			}
		}
		if name == "config" {
			val = rapid.SampledFrom([]string{goodConfig, goodConfig, badConfig, filepath.Join(tmpDir, "missing.json"), tmpDir, "", "~", "~/c.json", filepath.Dir(goodConfig) + "/./good.json"}).Draw(t, "cfgpath")
		}
		switch form := rapid.IntRange(0, 5).Draw(t, "form"); {
		case form <= 1:
			return []string{dashes + name + "=" + val}
		case form <= 3:
			return []string{dashes + name, val}
		default:
			return []string{dashes + name} // bare: fine for bool flags, swallows the next token otherwise
		}
	})
	other := rapid.Custom(func(t *rapid.T) []string {
		switch rapid.IntRange(0, 3).Draw(t, "otherclass") {
		case 0:
			return []string{rapid.SampledFrom(nearMiss).Draw(t, "nearmiss")}
		case 1:
			return []string{"--"}
		case 2:
			return []string{rapid.SampledFrom([]string{"pos", "file.txt", "-", "", "a=b", "true", "false", "0"}).Draw(t, "positional")}
		default:
			return []string{string(rapid.SliceOfN(rapid.Byte(), 0, 8).Draw(t, "bytes"))}
		}
	})
	return rapid.Custom(func(t *rapid.T) []string {
		n := rapid.IntRange(0, 7).Draw(t, "ngroups")
		var argv []string
		for i := 0; i < n; i++ {
			if rapid.IntRange(0, 9).Draw(t, "which") < 7 {
				argv = append(argv, flagTok.Draw(t, "flag")...)
			} else {
				argv = append(argv, other.Draw(t, "other")...)
			}
		}
		return argv
	})
}

func record(shape int, argv []string, class string, nflags int) {
	ev.Label("outcome:" + class)
	nt := len(argv) >= 2 && nflags >= 1
	ev.Case(nt, ev.Hash(append([]string{strconv.Itoa(shape)}, argv...)...), func() string {
		return fmt.Sprintf("shape %c argv=%q -> %s", 'A'+shape, argv, class)
	})
}

func TestGenerated(t *testing.T) {
	rt.Check(t, 20000, 6000000, func(t *rapid.T) {
		shape := rapid.IntRange(0, 3).Draw(t, "shape") / 3 // 3:1 in favour of the big shape
		defs := defsA
		if shape == 1 {
			defs = defsB
		}
		argv := genTokens(defs, shape).Draw(t, "argv")
		var env map[string]string
		if rapid.IntRange(0, 2).Draw(t, "withEnvironment") == 0 {
			// the same vector with CFG_* variables set for some flags: texts that equal the default or the configuration
			// file's value, other good texts, and now and then an unparsable one
			env = map[string]string{}
			for i, n := 0, rapid.IntRange(1, 4).Draw(t, "nenv"); i < n; i++ {
				d := rapid.SampledFrom(defs).Draw(t, "envFlag")
				pool := append([]string{d.def}, goodValues[d.kind]...)
				if j, ok := jsonA[d.name]; ok && shape == 0 {
					pool = append(pool, j)
				}
				if rapid.IntRange(0, 5).Draw(t, "badEnv") == 0 && len(badValues[d.kind]) > 0 {
					pool = badValues[d.kind]
				}
				if text := rapid.SampledFrom(pool).Draw(t, "envText"); !strings.Contains(text, "\x00") { // no NUL in the environment
					env[d.name] = text
				}
			}
			ev.Label("gen:environment_variables_set_for_some_flags")
		}
		msg, class, nflags := checkVectorEnv(shape, argv, env)
		if msg != "" {
			t.Fatalf("%s\n  environment (flag -> text): %q", msg, env)
		}
		record(shape, argv, class, nflags)
	})
}

func TestRegression(t *testing.T) {
	vectors := [][]string{
		{}, {"-d"}, {"-d", "false"}, {"-d=false"}, {"--d"}, {"-n", "5"}, {"-n=5"}, {"--n", "5"}, {"--n=5"}, {"-n"}, {"-n", "-d"}, {"-n=", "x"}, {"-n", "5", "-n", "abc"}, {"-n", "abc", "-n", "5"},
		{"-"}, {"--"}, {"--", "-n", "5"}, {"-d", "--", "-n"}, {"---x"}, {"-="}, {"-x="}, {"--=v"}, {"-=v"}, {"x", "-n", "5"}, {"", "-d"}, {"-zzz"}, {"-name", "a=b"}, {"-name=a=b"}, {"-name==v"},
		{"-name", "--"}, {"-name=--", "rest"}, {"-help"}, {"-help=false"}, {"-help=maybe"}, {"-config", goodConfig}, {"-config=" + badConfig}, {"-config", filepath.Join(tmpDir, "missing.json")},
		{"-config", goodConfig, "-name", "cli"}, {"-config", goodConfig, "-config", ""}, {"-config="}, {"-d", "-d=false", "-d"}, {"-u", "-1"}, {"-wait", "5"}, {"-data", "a"}, {"-ratio", "NaN"},
		{"-n=0x10"}, {"-verbose=false", "pos", "-d"},
	}
	for _, v := range vectors {
		for shape := 0; shape < 2; shape++ {
			msg, class, nflags := checkVector(shape, v)
			if msg != "" {
				t.Error(msg)
			}
			record(shape, v, class, nflags)
		}
	}
}

func FuzzArgv(f *testing.F) {
	f.Add([]byte("-n\x005\x00--name=a=b\x00--\x00-d"))
	f.Add([]byte("-d\x00false\x00-zzz"))
	f.Add([]byte("---x"))
	f.Add([]byte("-=\x00-x=\x00--=v"))
	f.Add([]byte("-n\x00-d\x00-n"))
	f.Fuzz(func(t *testing.T, data []byte) {
		argv := strings.Split(string(data), "\x00")
		if len(argv) > 12 {
			argv = argv[:12]
		}
		for shape := 0; shape < 2; shape++ {
			if msg, _, _ := checkVector(shape, argv); msg != "" {
				t.Fatal(msg)
			}
		}
	})
}
