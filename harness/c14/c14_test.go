// C14 — TaskLane survives task panics and reports status consistently.
package c14

import (
	"context"
	"fmt"
	"strings"
	"sync"
	"sync/atomic"
	"testing"
	"time"

	"github.com/whoisnian/glb/tasklane"

	"pgregory.net/rapid"

	"verif/harness/internal/ev"
	ls "verif/harness/internal/lanesim"
	"verif/harness/internal/rt"
)

func TestMain(m *testing.M) {
	ev.Rule("cases = task-lane scenario programs biased to panicking tasks with values of different dynamic types (string, error, int, struct, pointer, slice, float) released together on several workers through one gate, concurrent Status() pollers, " +
		"and stable states (p workers pinned, k queued), executed inside a synctest bubble under the race detector; oracle = every accepted non-panicking and panicking task is still started exactly once (workers keep serving), " +
		"LastPanic at quiescence is nil iff nothing panicked and otherwise one of the raised values, every Status() snapshot has 0 <= PendingTask <= laneSize x (queueSize+1), and at rest PendingTask = accepted - started exactly; no data race in lane code; " +
		"non-trivial = at least 2 panics of different dynamic types together with a concurrent Status poller; distinct by program hash")
	rt.Main(m)
}

var bias = ls.Bias{
	Weights:   map[ls.OpKind]int{ls.OpPush: 8, ls.OpSpawnPush: 5, ls.OpOpen: 3, ls.OpSettle: 5, ls.OpAdvance: 2, ls.OpStatus: 3, ls.OpPollers: 3, ls.OpFreeze: 1, ls.OpThaw: 1, ls.OpCancel: 1},
	TaskKinds: []ls.TaskKind{ls.TInstant, ls.TGated, ls.TSleep, ls.TPanic, ls.TPanic, ls.TGatedPanic, ls.TGatedPanic, ls.TGatedPanic, ls.TNil},
	MaxOps:    50,
	Cancel:    true,

	PanicStreak: true,
	Deadline:    5,
}

func TestScenarios(t *testing.T) {
	rt.Check(t, 1500, 600000, func(t *rapid.T) {
		p := ls.GenProgram(bias).Draw(t, "program")
		res, bubble := ls.RunInBubble(t, p)
		if bubble != "" {
			ev.Label("skipped:bubble_failure_(belongs_to_C07)")
			ev.Inconclusive(1)
			return
		}
		own := ls.Own(res, "C14")
		// "every other accepted task is still started exactly once": the C06 counters, in the presence of panics
		if res.PanicsRaised > 0 {
			own = append(own, ls.Own(res, "C06")...)
		}
		if len(own) > 0 {
			t.Fatalf("%s\nprogram: %s", strings.Join(own, "\n"), p)
		}
		if res.PanicsRaised > 0 {
			ev.Label(fmt.Sprintf("panic_types=%d", res.PanicTypes))
		}
		if res.PollersRan {
			ev.Label("concurrent_status_pollers")
		}
		if p.Streak > 0 {
			ev.Label(fmt.Sprintf("starts_with_%d_panics_in_a_row_on_one_lane", p.Streak))
		}
		ev.LabelN("status_calls", int64(res.StatusCalls))
		ev.LabelN("exact_pending_checks_at_rest", int64(res.ExactPendingChecks))
		nt := res.PanicsRaised >= 2 && res.PanicTypes >= 2 && res.PollersRan
		ev.Case(nt, ev.Hash(p.String()), func() string {
			return fmt.Sprintf("%s => panics=%d types=%d statusCalls=%d exactChecks=%d", p, res.PanicsRaised, res.PanicTypes, res.StatusCalls, res.ExactPendingChecks)
		})
	})
}

// TestStableStates builds the stable states of the quantifier directly: p workers pinned by gated tasks, k tasks
// queued behind them, for narrow and wide lanes; the pending count is compared exactly at every settle.
func TestStableStates(t *testing.T) {
	rt.Check(t, 60, 6000, func(t *rapid.T) {
		lanes := rapid.SampledFrom([]int{1, 2, 3, 4, 8, 31, 32, 33, 40, 64, 65}).Draw(t, "laneSize")
		queue := rapid.IntRange(0, 3).Draw(t, "queueSize")
		pinned := lanes
		if rapid.IntRange(0, 3).Draw(t, "pinAll") == 0 && lanes > 1 {
			pinned = rapid.IntRange(1, lanes-1).Draw(t, "pinned")
		}
		p := ls.Program{LaneSize: lanes, QueueSize: queue, Timeout: 100 * time.Millisecond}
		p.Ops = append(p.Ops, ls.Op{Kind: ls.OpSettle})
		for l := 0; l < pinned; l++ {
			p.Ops = append(p.Ops, ls.Op{Kind: ls.OpPush, Lane: l, Task: ls.TaskSpec{Kind: ls.TGated, Gate: 1}})
		}
		p.Ops = append(p.Ops, ls.Op{Kind: ls.OpSettle})
		rounds := rapid.IntRange(1, queue+2).Draw(t, "rounds")
		for r := 0; r < rounds; r++ {
			stride := rapid.SampledFrom([]int{1, 1, 2, 3}).Draw(t, "stride")
			for l := lanes - 1; l >= 0; l -= stride {
				kind := ls.TInstant
				if rapid.IntRange(0, 5).Draw(t, "panics") == 0 {
					kind = ls.TPanic
				}
				p.Ops = append(p.Ops, ls.Op{Kind: ls.OpPush, Lane: l, Task: ls.TaskSpec{Kind: kind, Panic: r + l}})
			}
			p.Ops = append(p.Ops, ls.Op{Kind: ls.OpSettle}, ls.Op{Kind: ls.OpStatus})
		}
		if rapid.Bool().Draw(t, "release") {
			p.Ops = append(p.Ops, ls.Op{Kind: ls.OpOpen, Gate: 1}, ls.Op{Kind: ls.OpSettle})
		}
		res, bubble := ls.RunInBubble(t, p)
		if bubble != "" {
			ev.Inconclusive(1)
			return
		}
		own := ls.Own(res, "C14")
		if res.PanicsRaised > 0 {
			own = append(own, ls.Own(res, "C06")...)
		}
		if len(own) > 0 {
			t.Fatalf("%s\nstable state: lanes=%d queue=%d pinned=%d rounds=%d\nprogram: %s", strings.Join(own, "\n"), lanes, queue, pinned, rounds, p)
		}
		ev.Label(fmt.Sprintf("stable_state:lanes=%d", lanes))
		ev.LabelN("exact_pending_checks_at_rest", int64(res.ExactPendingChecks))
		ev.Case(pinned == lanes && res.Accepted > lanes, ev.Hash("stable", p.String()), func() string {
			return fmt.Sprintf("stable state lanes=%d queue=%d pinned=%d rounds=%d: accepted=%d started=%d exactChecks=%d", lanes, queue, pinned, rounds, res.Accepted, res.Started, res.ExactPendingChecks)
		})
	})
}

// ---- the pending count compared exactly while Status() is polled from other goroutines (real clock) ----

type holdTask struct {
	gate    chan struct{}
	started atomic.Int32
}

func (h *holdTask) Start() { h.started.Add(1); <-h.gate }

// TestPendingExactWhilePolled builds a state in which nothing moves: every worker is inside a task that waits for a
// gate, every queue goroutine holds one task it cannot hand over, and the buffers have room. From then on a PushTask
// that returns nil has put its task into a buffer and the lane is at rest the moment the call returns: the pending
// count is laneSize + the number of pushes accepted so far, and that is what Status() must say to the pushing
// goroutine - while other goroutines call Status() in tight loops all the time (they may look at the counters at any
// moment, and whatever they share among themselves is their business).
func TestPendingExactWhilePolled(t *testing.T) {
	rt.Check(t, 8, 400, func(t *rapid.T) {
		lanes := rapid.IntRange(1, 3).Draw(t, "laneSize")
		queue := rapid.SampledFrom([]int{2, 8, 40, 120, 400}).Draw(t, "queueSize")
		pollers := rapid.IntRange(1, 4).Draw(t, "pollers")
		ctx, cancel := context.WithCancel(context.Background())
		defer cancel()
		// the build-tag-guarded hook tells when a queue goroutine has counted the task it holds (point Q2)
		var q2 atomic.Int32
		hook := func(point string, lane int, tk tasklane.Task) {
			if point == "Q2" {
				q2.Add(1)
			}
		}
		tasklane.VerifHook.Store(&hook)
		defer tasklane.VerifHook.Store(nil)
		tl := tasklane.New(ctx, lanes, queue)
		tl.SetTimeout(10 * time.Minute)
		gate := make(chan struct{})
		var pins []*holdTask
		for l := 0; l < lanes; l++ {
			p := &holdTask{gate: gate}
			pins = append(pins, p)
			if err := tl.PushTask(p, l); err != nil {
				t.Fatalf("PushTask returned %v", err)
			}
		}
		waitUntil := func(what string, cond func() bool) {
			for deadline := time.Now().Add(90 * time.Second); !cond(); {
				if time.Now().After(deadline) {
					close(gate)
					fmt.Printf("HARNESS-INCONCLUSIVE: %s did not come about within a minute and a half\n", what)
					t.Fatalf("harness inconclusive")
				}
				time.Sleep(100 * time.Microsecond)
			}
		}
		waitUntil("every worker inside its pinning task", func() bool {
			for _, p := range pins {
				if p.started.Load() == 0 {
					return false
				}
			}
			return true
		})
		for l := 0; l < lanes; l++ { // one task per lane for the queue goroutine to hold
			if err := tl.PushTask(&holdTask{gate: gate}, l); err != nil {
				t.Fatalf("PushTask returned %v", err)
			}
		}
		waitUntil("every queue goroutine holding (and having counted) its task", func() bool { return int(q2.Load()) == 2*lanes && tl.Status().PendingTask == lanes })
		var stop atomic.Bool
		var polls atomic.Int64
		var wg sync.WaitGroup
		for i := 0; i < pollers; i++ {
			wg.Add(1)
			go func() {
				defer wg.Done()
				for !stop.Load() {
					tl.Status()
					polls.Add(1)
				}
			}()
		}
		waitUntil("the pollers running", func() bool { return polls.Load() >= int64(pollers) })
		accepted := 0
		var msg string
		for round := 0; round < queue-1 && msg == ""; round++ {
			for l := 0; l < lanes && msg == ""; l++ {
				if err := tl.PushTask(&holdTask{gate: gate}, l); err != nil {
					msg = fmt.Sprintf("PushTask into a buffer with room returned %v", err)
					break
				}
				accepted++
				if got, want := tl.Status().PendingTask, lanes+accepted; got != want {
					msg = fmt.Sprintf("laneSize %d, queueSize %d, %d goroutines polling Status(): every worker is pinned, every queue goroutine holds a task, and push #%d into a buffer has just returned nil - Status().PendingTask = %d, but %d accepted tasks have not been started", lanes, queue, pollers, accepted, got, want)
				}
			}
		}
		stop.Store(true)
		wg.Wait()
		close(gate)
		if msg != "" {
			t.Fatalf("%s", msg)
		}
		cancel()
		tl.Wait()
		ev.LabelN("exact_pending_checks_while_polled", int64(accepted))
		ev.Case(true, ev.Hash("polled", fmt.Sprint(lanes, queue, pollers, polls.Load())), func() string {
			return fmt.Sprintf("laneSize %d queueSize %d: %d exact comparisons of PendingTask right after an accepted push while %d goroutines polled Status() (%d polls)", lanes, queue, accepted, pollers, polls.Load())
		})
	})
}
