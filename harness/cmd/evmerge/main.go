// evmerge prints the number of distinct 64-bit hashes in the union of the
// given binary hash files (little-endian uint64 each).
package main

import (
	"encoding/binary"
	"fmt"
	"os"
	"slices"
)

func main() {
	var all []uint64
	for _, p := range os.Args[1:] {
		b, err := os.ReadFile(p)
		if err != nil {
			continue
		}
		for i := 0; i+8 <= len(b); i += 8 {
			all = append(all, binary.LittleEndian.Uint64(b[i:]))
		}
	}
	slices.Sort(all)
	n := 0
	for i := range all {
		if i == 0 || all[i] != all[i-1] {
			n++
		}
	}
	fmt.Println(n)
}
