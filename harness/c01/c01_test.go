// C01 — JSON handler: every record is one valid, faithful JSON line.
package c01

import (
	"bytes"
	"context"
	"encoding/json"
	"fmt"
	"log/slog"
	"math/big"
	"runtime"
	"strings"
	"sync"
	"testing"
	"time"
	"unicode/utf8"

	"github.com/whoisnian/glb/logger"
	"pgregory.net/rapid"

	"verif/harness/internal/ev"
	lm "verif/harness/internal/logmodel"
	"verif/harness/internal/rt"
)

func TestMain(m *testing.M) {
	ev.Rule("cases = (derivation chain of With/WithGroup steps, level, addSource, message, attribute tree) logged through the JSON handler via the Logger entry points or Handler.Handle with a generated instant; " +
		"strings from a hostile generator (controls, quotes, U+2028/9, invalid UTF-8, up to 70 KiB), all value kinds, keyed/inline/empty groups to depth 4, LogValuers; plus the exhaustive sub-scope of every 1- and 2-byte string and " +
		"Unicode scalar values as message, key and value; oracle = exactly one Write, one newline-terminated valid-UTF-8 line, one JSON object (encoding/json decoder) whose ordered members equal an independent expectation model; " +
		"non-trivial = the case contains a string needing escaping or invalid UTF-8, a group, a LogValuer, an unencodable value or a non-empty chain; distinct by case hash")
	ev.Assume("how a recursively empty keyed group reached through With/WithGroup/LogValuer is rendered (omitted or an empty object) is not fixed by the statement: both are accepted")
	ev.Assume("panicking Marshalers/LogValuers and invalid levels are outside the stated domain and not generated")
	rt.Main(m)
}

var genOpts = lm.GenOpts{MaxDepth: 4, Huge: true}

type jcase struct {
	chain     []lm.Step
	decoys    [][]lm.Step // siblings derived from the same parents, never logged through
	level     slog.Level
	addSource bool
	msg       string
	attrs     []lm.Node
	form      int  // Logger entry point
	direct    bool // Handler.Handle with a generated instant
	instant   time.Time
	prime     lm.Prime    // a record logged through another handler right before this one
	fail      *lm.Failure // direct only: the destination fails for the first write(s)
}

func (c jcase) render() string {
	msg := c.msg
	if len(msg) > 80 {
		msg = fmt.Sprintf("%s…(%d bytes)", msg[:80], len(msg))
	}
	nd := 0
	for _, d := range c.decoys {
		nd += len(d)
	}
	return fmt.Sprintf("decoySiblings=%d chain=%s level=%s addSource=%v direct=%v form=%d msg=%q attrs=%s", nd, lm.RenderChain(c.chain), lm.LevelNames[c.level], c.addSource, c.direct, c.form, msg, lm.RenderNodes(c.attrs))
}

func needsEscape(s string) bool {
	if !utf8.ValidString(s) {
		return true
	}
	for _, r := range s {
		if r < 0x20 || r == '"' || r == '\\' || r == 0x2028 || r == 0x2029 || r == 0x7f {
			return true
		}
	}
	return false
}

func nodeNontrivial(n lm.Node) bool {
	if n.Valuer > 0 || n.Kind == lm.KGroup || needsEscape(n.Key) || needsEscape(n.S) {
		return true
	}
	switch n.Kind {
	case lm.KMarshalErr, lm.KMarshalGarbage, lm.KRawInvalid, lm.KUnencodableMap:
		return true
	}
	for _, m := range n.Members {
		if nodeNontrivial(m) {
			return true
		}
	}
	return false
}

func (c jcase) nontrivial() bool {
	if len(c.chain) > 0 || needsEscape(c.msg) {
		return true
	}
	for _, n := range c.attrs {
		if nodeNontrivial(n) {
			return true
		}
	}
	return false
}

func labelShapes(c jcase) {
	var walk func(ns []lm.Node, inWith bool, afterSibling bool)
	walk = func(ns []lm.Node, inWith bool, afterSibling bool) {
		for i, n := range ns {
			if n.Kind == lm.KGroup {
				if n.RecursivelyEmpty() {
					if n.Key == "" && (i > 0 || afterSibling) {
						ev.Label("shape:empty_inline_group_after_sibling")
					}
					if inWith {
						ev.Label("shape:empty_group_in_With")
					}
					if n.Valuer > 0 {
						ev.Label("shape:LogValuer_to_empty_group")
					}
				}
				if n.Valuer > 0 {
					ev.Label("shape:LogValuer_to_group")
				}
				walk(n.Members, inWith, i > 0 || afterSibling)
			}
		}
	}
	for _, s := range c.chain {
		walk(s.With, true, true)
	}
	walk(c.attrs, false, true)
	ev.Label(fmt.Sprintf("chain_len:%d", len(c.chain)))
	if c.prime.Use {
		ev.Label("history:another_handler_logged_a_nearby_instant_just_before")
	}
}

// run executes the case against the real handler and returns "" if the oracle is satisfied.
func run(c jcase) (msg string, payloadLen int) {
	if !c.direct && !lm.FormTakesAttrs(c.form) {
		c.attrs = nil // the printf-style entry points carry no attributes
	}
	sink := &lm.Sink{}
	h := logger.NewJsonHandler(sink, logger.NewOptions(logger.LevelDebug, false, c.addSource))
	var exp []lm.EMember
	var file string
	var line int
	if c.direct {
		dh := lm.DeriveHandlerWithDecoys(h, c.chain, c.decoys)
		pc, f, l := lm.CallerPC()
		file, line = f, l
		c.prime.Run(c.instant, c.addSource)
		r := slog.NewRecord(c.instant, c.level, c.msg, pc)
		r.AddAttrs(lm.Attrs(c.attrs)...)
		sink.Fail = c.fail
		err := dh.Handle(context.Background(), r.Clone())
		if c.fail != nil && sink.FailedCalls > 0 {
			// the destination failed. A handler that reports the error has made no claim about this record: the caller
			// logs it once more through the same handler, and the destination has recovered by then. A handler that
			// reports success has claimed a whole line: everything the destination took is judged.
			if err != nil {
				sink.Reset()
				sink.FailedCalls = c.fail.Times
				if err = dh.Handle(context.Background(), r.Clone()); err != nil {
					return "Handle returned " + err.Error() + " on a destination that has recovered after one failed write", 0
				}
				ev.Label("destination_failed:error_reported_then_logged_again")
			} else {
				ev.Label("destination_failed:success_reported")
			}
			sink.Writes = [][]byte{sink.Accepted}
		} else if err != nil {
			return "Handle returned " + err.Error(), 0
		}
		// for a record without a time slog's handler contract lets a handler leave the member out
		exp = append(exp, lm.EMember{Key: "time", Exp: lm.Exp{Kind: lm.ETimeInZone, T: c.instant, Optional: c.instant.IsZero()}})
	} else {
		l := lm.DeriveWithDecoys(logger.New(h), c.chain, c.decoys)
		c.prime.Run(time.Now(), c.addSource)
		before := time.Now()
		file, line = lm.Emit(l, c.form, c.level, c.msg, c.attrs)
		after := time.Now()
		exp = append(exp, lm.EMember{Key: "time", Exp: lm.Exp{Kind: lm.ETimeWindow, T: before.Round(0), T2: after.Round(0)}})
	}
	exp = append(exp, lm.EMember{Key: "level", Exp: lm.Exp{Kind: lm.EString, Str: lm.LevelNames[c.level]}})
	if c.addSource {
		exp = append(exp, lm.EMember{Key: "source", Exp: lm.Exp{Kind: lm.EObject, Members: []lm.EMember{
			{Key: "file", Exp: lm.Exp{Kind: lm.EString, Str: file}},
			{Key: "line", Exp: lm.Exp{Kind: lm.EInt, Big: big.NewInt(int64(line))}},
		}}})
	}
	wantMsg := c.msg
	if !c.direct {
		wantMsg = lm.FormMessage(c.form, c.msg)
	}
	exp = append(exp, lm.EMember{Key: "msg", Exp: lm.Exp{Kind: lm.EString, Str: lm.Sanitize(wantMsg)}})
	exp = append(exp, lm.ExpectBody(c.chain, c.attrs)...)
	if len(sink.Writes) != 1 {
		return fmt.Sprintf("%d Write calls for one record, want exactly 1", len(sink.Writes)), 0
	}
	p := sink.Writes[0]
	if m := lm.CheckJSONLine(p, exp); m != "" {
		out := string(p)
		if len(out) > 600 {
			out = out[:600] + "…"
		}
		return m + "\n  line: " + out, len(p)
	}
	return "", len(p)
}

func genCase(t *rapid.T) jcase {
	c := jcase{
		chain:     lm.GenChain(genOpts, 5).Draw(t, "chain"),
		level:     rapid.SampledFrom(lm.Levels).Draw(t, "level"),
		addSource: rapid.Bool().Draw(t, "addSource"),
		msg:       lm.HostileString().Draw(t, "msg"),
		attrs:     lm.GenNodes(genOpts, 5).Draw(t, "attrs"),
		form:      rapid.IntRange(0, lm.NumForms-1).Draw(t, "form"),
		direct:    rapid.IntRange(0, 3).Draw(t, "direct") == 0,
	}
	if c.direct {
		c.instant = lm.GenInstant().Draw(t, "instant")
		if rapid.IntRange(0, 9).Draw(t, "zeroTime") == 0 {
			c.instant = time.Time{} // a record that carries no time at all
		}
		if rapid.IntRange(0, 3).Draw(t, "destinationFails") == 0 {
			c.fail = lm.GenFailure().Draw(t, "failure")
		}
	}
	c.prime = lm.GenPrime(genOpts).Draw(t, "prime")
	if rapid.IntRange(0, 24).Draw(t, "deepChain") == 0 {
		c.chain = lm.GenDeepChain(genOpts).Draw(t, "deep") // many open groups
	}
	if len(c.chain) > 0 {
		c.decoys = lm.GenDecoys(genOpts, len(c.chain)).Draw(t, "decoys")
	}
	return c
}

func TestGenerated(t *testing.T) {
	rt.Check(t, 5000, 1200000, func(t *rapid.T) {
		c := genCase(t)
		msg, plen := run(c)
		if msg != "" {
			t.Fatalf("%s\ncase: %s", msg, c.render())
		}
		labelShapes(c)
		if plen > 16<<10 {
			ev.Label("line_over_16KiB")
		}
		ev.Case(c.nontrivial(), ev.Hash(c.render()), c.render)
	})
}

// ---- exhaustive strings ----

func checkStrings(t *testing.T, batch []string, what string) bool {
	// each string appears as message (first of the batch), as key and as value
	var attrs []lm.Node
	for _, s := range batch {
		attrs = append(attrs, lm.Node{Key: s, Kind: lm.KString, S: "v"}, lm.Node{Key: "k", Kind: lm.KString, S: s})
	}
	c := jcase{level: logger.LevelInfo, msg: batch[0], attrs: attrs, form: 2}
	if msg, _ := run(c); msg != "" {
		// find the single offending string
		for _, s := range batch {
			one := jcase{level: logger.LevelInfo, msg: s, attrs: []lm.Node{{Key: s, Kind: lm.KString, S: "v"}, {Key: "k", Kind: lm.KString, S: s}}, form: 2}
			if m, _ := run(one); m != "" {
				t.Errorf("%s %q: %s", what, s, m)
				return false
			}
		}
		t.Errorf("%s batch starting at %q: %s", what, batch[0], msg)
		return false
	}
	for _, s := range batch {
		s := s
		ev.Case(needsEscape(s), ev.Hash("str", s), func() string { return fmt.Sprintf("%s %q as message, key and value", what, s) })
	}
	// the message position for every string of the batch (not only the first)
	for i := 1; i < len(batch); i += 16 {
		if m, _ := run(jcase{level: logger.LevelWarn, msg: batch[i], form: 0}); m != "" {
			t.Errorf("%s %q as message: %s", what, batch[i], m)
			return false
		}
	}
	return true
}

// chunkSink is a destination that is not atomic per Write call (a buffered or network writer): it takes the payload
// in small pieces and lets other goroutines run in between. Only the pieces are protected by its own lock.
type chunkSink struct {
	mu  sync.Mutex
	buf []byte
}

func (c *chunkSink) Write(p []byte) (int, error) {
	n := len(p)
	for len(p) > 0 {
		k := min(len(p), 11)
		c.mu.Lock()
		c.buf = append(c.buf, p[:k]...)
		c.mu.Unlock()
		p = p[k:]
		runtime.Gosched()
	}
	return n, nil
}

// TestLinesFromSeveralLoggers: "every record the handler writes is exactly one line that parses as a single JSON object"
// as the destination sees it, also when the root logger and loggers derived from it write at the same time into a
// destination that takes each Write in pieces. (That the Write calls themselves never overlap is C02's statement; here
// only the outcome counts: whole lines.)
func TestLinesFromSeveralLoggers(t *testing.T) {
	rt.Check(t, 40, 20000, func(t *rapid.T) {
		sink := &chunkSink{}
		root := logger.New(logger.NewJsonHandler(sink, logger.NewOptions(logger.LevelDebug, false, rapid.Bool().Draw(t, "addSource"))))
		g := rapid.IntRange(2, 8).Draw(t, "goroutines")
		per := rapid.IntRange(5, 60).Draw(t, "records")
		loggers := make([]*logger.Logger, g)
		for i := range loggers {
			loggers[i] = root
			if rapid.IntRange(0, 3).Draw(t, "derived") > 0 {
				loggers[i] = lm.Derive(root, lm.GenChain(genOpts, 3).Draw(t, "chain"))
			}
		}
		attrs := lm.GenNodes(genOpts, 3).Draw(t, "attrs")
		var wg sync.WaitGroup
		for i := range loggers {
			wg.Add(1)
			go func(i int) {
				defer wg.Done()
				for k := 0; k < per; k++ {
					lm.Emit(loggers[i], 2, logger.LevelInfo, fmt.Sprintf("id-%d-%d", i, k), attrs)
				}
			}(i)
		}
		wg.Wait()
		out := string(sink.buf)
		if !strings.HasSuffix(out, "\n") {
			t.Fatalf("the output does not end with a newline: ...%q", out[max(0, len(out)-120):])
		}
		lines := strings.Split(strings.TrimSuffix(out, "\n"), "\n")
		seen := map[string]bool{}
		for _, l := range lines {
			v, err := lm.DecodeOne([]byte(l))
			if err != nil || v.Kind != lm.JObject {
				t.Fatalf("%d goroutines, %d records each: a line of the output is not one JSON object (%v): %q", g, per, err, l[:min(len(l), 400)])
			}
			id := ""
			for _, m := range v.Members {
				if m.Key == "msg" {
					id = m.Val.Str // the record's own message comes first; an attribute may be keyed "msg" as well
					break
				}
			}
			if !strings.HasPrefix(id, "id-") || seen[id] {
				t.Fatalf("line with msg %q: unknown or repeated record: %q", id, l[:min(len(l), 400)])
			}
			seen[id] = true
		}
		if len(lines) != g*per {
			t.Fatalf("%d lines for %d records", len(lines), g*per)
		}
		ev.Label("concurrent_loggers_into_a_chunking_destination")
		ev.Case(true, ev.Hash("chunk", fmt.Sprint(g, per), lm.RenderNodes(attrs)), func() string {
			return fmt.Sprintf("%d goroutines (root and derived loggers) x %d records into a destination that takes each Write in 11-byte pieces", g, per)
		})
	})
}

func TestExhaustiveShortStrings(t *testing.T) {
	si, sn := rt.Shard()
	var batch []string
	n := 0
	flush := func() bool {
		if len(batch) == 0 {
			return true
		}
		ok := checkStrings(t, batch, "string")
		batch = batch[:0]
		return ok
	}
	idx := 0
	add := func(s string) bool {
		idx++
		if idx%sn != si {
			return true
		}
		n++
		batch = append(batch, s)
		if len(batch) == 256 {
			return flush()
		}
		return true
	}
	for a := 0; a < 256; a++ {
		if !add(string([]byte{byte(a)})) {
			return
		}
	}
	for a := 0; a < 256; a++ {
		for b := 0; b < 256; b++ {
			if !add(string([]byte{byte(a), byte(b)})) {
				return
			}
		}
	}
	if !flush() {
		return
	}
	scope := "every 1-byte and 2-byte string (65 792) as message, key and string value"
	if sn > 1 {
		scope = fmt.Sprintf("shard %d/%d of: ", si, sn) + scope
	}
	ev.Exhaustive(scope)
	ev.LabelN("exhaustive_short_strings", int64(n))
}

func TestScalars(t *testing.T) {
	si, sn := rt.Shard()
	var batch []string
	n := 0
	stride := 1
	if !rt.Thorough() {
		stride = 57 // quick: a sample; boundaries are added explicitly below
	}
	flush := func() bool {
		if len(batch) == 0 {
			return true
		}
		ok := checkStrings(t, batch, "scalar")
		batch = batch[:0]
		return ok
	}
	idx := 0
	add := func(r rune) bool {
		idx++
		if idx%sn != si {
			return true
		}
		n++
		batch = append(batch, string(r))
		if len(batch) == 256 {
			return flush()
		}
		return true
	}
	for r := rune(0); r <= 0x10ffff; r += rune(stride) {
		if r >= 0xd800 && r <= 0xdfff {
			continue
		}
		if !add(r) {
			return
		}
	}
	if stride > 1 {
		for _, r := range []rune{0, 0x1f, 0x20, 0x22, 0x5c, 0x7e, 0x7f, 0x80, 0x7ff, 0x800, 0x2027, 0x2028, 0x2029, 0x202a, 0xd7ff, 0xe000, 0xfffd, 0xfffe, 0xffff, 0x10000, 0x1ffff, 0x10fffe, 0x10ffff} {
			if !add(r) {
				return
			}
		}
	}
	if !flush() {
		return
	}
	if stride == 1 {
		scope := "every Unicode scalar value (1 112 064) as message, key and string value"
		if sn > 1 {
			scope = fmt.Sprintf("shard %d/%d of: ", si, sn) + scope
		}
		ev.Exhaustive(scope)
	}
	ev.LabelN("scalars_checked", int64(n))
}

func TestRegression(t *testing.T) {
	g := func(key string, members ...lm.Node) lm.Node {
		return lm.Node{Key: key, Kind: lm.KGroup, Members: members}
	}
	i := func(key string, v int64) lm.Node { return lm.Node{Key: key, Kind: lm.KInt64, I: v} }
	lv := func(n lm.Node) lm.Node { n.Valuer = 1; return n }
	cases := []jcase{
		// the comma bookkeeping around empty inline groups
		{chain: []lm.Step{{With: []lm.Node{g("")}}}, msg: "m", attrs: []lm.Node{i("k", 1)}},
		{chain: []lm.Step{{Group: "g"}, {With: []lm.Node{g("")}}}, msg: "m", attrs: []lm.Node{i("k", 1)}},
		{chain: []lm.Step{{With: []lm.Node{i("a", 1), g("")}}}, msg: "m"},
		{chain: []lm.Step{{With: []lm.Node{i("a", 1), g(""), i("b", 2)}}}, msg: "m"},
		{msg: "m", attrs: []lm.Node{i("a", 1), lv(g("")), i("b", 2)}},
		{msg: "m", attrs: []lm.Node{lv(g("")), i("b", 2)}},
		{msg: "m", attrs: []lm.Node{g("x", i("a", 1), lv(g("")), i("b", 2))}},
		{msg: "m", attrs: []lm.Node{g("x", lv(g("")))}},
		{msg: "m", attrs: []lm.Node{g("x", lv(g("y")), i("b", 2))}},
		{chain: []lm.Step{{Group: "g"}}, msg: "m"},
		{chain: []lm.Step{{Group: "g"}, {Group: "h"}}, msg: "m", attrs: []lm.Node{lv(g(""))}},
		{chain: []lm.Step{{With: []lm.Node{g("e")}}, {With: []lm.Node{g("", g(""))}}}, msg: "m", attrs: []lm.Node{i("k", 1)}},
		{chain: []lm.Step{{With: []lm.Node{lv(lv(g("", lv(g("")))))}}, {Group: "q"}, {With: []lm.Node{lv(g(""))}}}, msg: "m", attrs: []lm.Node{lv(g("")), i("k", 1), lv(g(""))}},
		// escaping
		{msg: "\"\\\n\r\t\x00\x1f\x7f  \xff\xc0\xaf\xed\xa0\x80", attrs: []lm.Node{{Key: "\xff\"", Kind: lm.KString, S: "a\x80b"}}},
		{msg: "", attrs: []lm.Node{{Key: "", Kind: lm.KMarshalGarbage, S: "{"}, {Key: "e", Kind: lm.KMarshalErr, S: "boom \"quoted\"\n"}, {Key: "f", Kind: lm.KFloat, F: nan()}, {Key: "r", Kind: lm.KRawInvalid, S: "{"}, {Key: "u", Kind: lm.KUnencodableMap}}},
	}
	for _, base := range cases {
		for _, src := range []bool{false, true} {
			for form := 0; form < lm.NumForms; form++ {
				c := base
				c.addSource, c.form, c.level = src, form, lm.Levels[form%len(lm.Levels)]
				if msg, _ := run(c); msg != "" {
					t.Errorf("%s\ncase: %s", msg, c.render())
				}
				d := c
				d.direct, d.instant = true, time.Date(2023, 8, 16, 0, 35, 15, 208873091, time.FixedZone("", 8*3600))
				if msg, _ := run(d); msg != "" {
					t.Errorf("%s\ncase: %s", msg, d.render())
				}
			}
		}
		ev.Case(true, ev.Hash(base.render()), base.render)
	}
}

func nan() float64 { z := 0.0; return z / z }

// FuzzJSONLine: bytes -> (message, key, value, shape selector); the semantic oracle runs inside the target.
func FuzzJSONLine(f *testing.F) {
	f.Add("m", "k", "v", uint8(0))
	f.Add("\"", "\\", "\n", uint8(1))
	f.Add("\xff", " ", "\x00", uint8(2))
	f.Add("", "", "", uint8(3))
	f.Add("a\xc0\xafb", "\xed\xa0\x80", "\xf4\x90\x80\x80", uint8(4))
	f.Add("m", "", "\x7f", uint8(5))
	f.Fuzz(func(t *testing.T, msg, key, val string, shape uint8) {
		leaf := lm.Node{Key: key, Kind: lm.KString, S: val}
		c := jcase{level: lm.Levels[int(shape)%5], msg: msg, addSource: shape&0x80 != 0, form: int(shape>>3) % lm.NumForms}
		switch shape % 8 {
		case 0:
			c.attrs = []lm.Node{leaf}
		case 1:
			c.attrs = []lm.Node{{Key: key, Kind: lm.KGroup, Members: []lm.Node{leaf, {Kind: lm.KGroup}}}}
		case 2:
			c.chain = []lm.Step{{With: []lm.Node{leaf}}}
		case 3:
			name := key
			if name == "" {
				name = "g"
			}
			c.chain = []lm.Step{{Group: name}, {With: []lm.Node{leaf, {Kind: lm.KGroup}}}}
			c.attrs = []lm.Node{{Key: val, Kind: lm.KError, S: msg}}
		case 4:
			c.attrs = []lm.Node{{Kind: lm.KGroup, Members: []lm.Node{leaf}}, {Key: val, Kind: lm.KBytes, S: key}}
		case 5:
			l := leaf
			l.Valuer = 1
			c.attrs = []lm.Node{{Key: "a", Kind: lm.KInt64, I: 1}, {Kind: lm.KGroup, Valuer: 1}, l}
		case 6:
			c.attrs = []lm.Node{{Key: key, Kind: lm.KMarshalErr, S: val}, {Key: val, Kind: lm.KAnsi, S: key}}
		case 7:
			c.chain = []lm.Step{{With: []lm.Node{{Kind: lm.KGroup}}}, {With: []lm.Node{leaf}}}
		}
		if m, _ := run(c); m != "" {
			t.Fatalf("%s\ncase: %s", m, c.render())
		}
	})
}

var _ = strings.Repeat

// TestSameAttrUsedAgain: an attribute value that the program builds once (a package-level slog.Group(...)) and hands
// to the logger again and again. A deferred value inside it is resolved for every record anew: the n-th use shows the
// n-th resolution, through whichever entry point the attribute comes in, With included.
func TestSameAttrUsedAgain(t *testing.T) {
	rt.Check(t, 400, 60000, func(t *rapid.T) {
		ra := lm.GenReusedAttr().Draw(t, "attr")
		sink := &lm.Sink{}
		h := logger.NewJsonHandler(sink, logger.NewOptions(logger.LevelDebug, false, rapid.Bool().Draw(t, "addSource")))
		l := logger.New(h)
		uses := rapid.IntRange(2, 5).Draw(t, "uses")
		var hows []int
		for i := 1; i <= uses; i++ {
			how := rapid.IntRange(0, 3).Draw(t, "how")
			hows = append(hows, how)
			sink.Reset()
			switch how {
			case 0:
				l.Log(context.Background(), logger.LevelInfo, "m", ra.Attr)
			case 1:
				pc, _, _ := lm.CallerPC()
				r := slog.NewRecord(time.Now(), logger.LevelWarn, "m", pc)
				r.AddAttrs(ra.Attr)
				if err := h.Handle(context.Background(), r); err != nil {
					t.Fatalf("Handle returned %v", err)
				}
			case 2:
				l.With(ra.Attr).Info("m")
			case 3:
				l.Error("m", ra.Attr)
			}
			if len(sink.Writes) != 1 {
				t.Fatalf("use #%d: %d Write calls for one record", i, len(sink.Writes))
			}
			var obj any
			dec := json.NewDecoder(bytes.NewReader(sink.Writes[0]))
			dec.UseNumber()
			if err := dec.Decode(&obj); err != nil {
				t.Fatalf("use #%d: line does not parse: %v: %s", i, err, sink.Writes[0])
			}
			for _, k := range ra.Path {
				m, ok := obj.(map[string]any)
				if !ok {
					t.Fatalf("use #%d (entry point %d) of the same attribute (%s): no object on the way to %v in %s", i, how, ra.Desc, ra.Path, sink.Writes[0])
				}
				obj = m[k]
			}
			if got := fmt.Sprint(obj); got != fmt.Sprint(i) {
				t.Fatalf("use #%d of the same attribute (%s; entry points so far %v): the deferred value inside shows %s, want %d - the value of the resolution made for this record\n  line: %s", i, ra.Desc, hows, got, i, sink.Writes[0])
			}
		}
		ev.Label("same_attribute_value_logged_again")
		ev.Case(true, ev.Hash("reuse", ra.Desc, fmt.Sprint(hows)), func() string {
			return fmt.Sprintf("one attribute value (%s) used %d times through entry points %v", ra.Desc, uses, hows)
		})
	})
}

// TestSmallIntegers: every integer from -12000 to 12000, and the neighbourhood of every power of ten and of two, as an
// int64, a uint64 (where it fits) and a duration attribute, 256 to a record. (Whatever fast paths number formatting has,
// their seams lie among these.)
func TestSmallIntegers(t *testing.T) {
	si, sn := rt.Shard()
	var vals []int64
	for v := int64(-12000); v <= 12000; v++ {
		vals = append(vals, v)
	}
	for p, k := int64(1), 0; k <= 18; p, k = p*10, k+1 {
		for d := int64(-2); d <= 2; d++ {
			vals = append(vals, p+d, -(p + d))
		}
	}
	for k := 0; k <= 62; k++ {
		for d := int64(-2); d <= 2; d++ {
			vals = append(vals, int64(1)<<uint(k)+d, -(int64(1)<<uint(k) + d))
		}
	}
	n := 0
	for start := 0; start < len(vals); start += 256 {
		if (start/256)%sn != si {
			continue
		}
		var attrs []lm.Node
		for i, v := range vals[start:min(start+256, len(vals))] {
			attrs = append(attrs, lm.Node{Key: fmt.Sprintf("i%d", i), Kind: lm.KInt64, I: v}, lm.Node{Key: fmt.Sprintf("d%d", i), Kind: lm.KDuration, I: v})
			if v >= 0 {
				attrs = append(attrs, lm.Node{Key: fmt.Sprintf("u%d", i), Kind: lm.KUint64, U: uint64(v)})
			}
			n++
		}
		c := jcase{level: logger.LevelInfo, msg: "integers", attrs: attrs, form: 2}
		if msg, _ := run(c); msg != "" {
			// find the one
			for _, a := range attrs {
				one := jcase{level: logger.LevelInfo, msg: "integer", attrs: []lm.Node{a}, form: 2}
				if m, _ := run(one); m != "" {
					t.Fatalf("%s\n  attribute: %s", m, a.Render())
				}
			}
			t.Fatalf("%s", msg)
		}
	}
	ev.LabelN("integers_checked_one_by_one", int64(n))
	ev.Exhaustive(fmt.Sprintf("every integer in [-12000, 12000] and within 2 of every power of ten and of two, as int64 / uint64 / duration attribute (%d values in this shard)", n))
}
