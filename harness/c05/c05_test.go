// C05 — Requests are isolated: pooled per-request state never leaks between requests.
package c05

import (
	"context"
	"fmt"
	"io"
	"net/http"
	"net/url"
	"reflect"
	"runtime"
	"runtime/debug"
	"sort"
	"strconv"
	"strings"
	"sync"
	"sync/atomic"
	"testing"
	"unsafe"

	"github.com/whoisnian/glb/httpd"
	"github.com/whoisnian/glb/logger"
	"pgregory.net/rapid"

	"verif/harness/internal/ev"
	rm "verif/harness/internal/routemodel"
	"verif/harness/internal/rt"
)

func TestMain(m *testing.M) {
	ev.Rule("cases = histories of register / request / panicking request / concurrent burst actions on one long-lived Mux (rapid state machine); the relay handler (before and after), the route handler and the no-route handler " +
		"record Store.I, RouteParam(name) for every name in the table plus the * pseudo-parameter, W.Status on entry and GetID(); every record must equal the record of the same request on a fresh Mux with the current table " +
		"and the reference router, IDs must be constant within and unique across requests; " +
		"non-trivial = a request served by a recycled Store whose previous request matched a route with a different parameter list, matched nothing or panicked, or that follows a registration raising the maximum parameter count; distinct by history hash")
	rt.Main(m)
}

type snap struct {
	IPath, IMethod string
	Params         map[string]string
	Any            string
	Status         int
	ID             string
	Err            string // panic raised by a Store accessor while taking the snapshot
	Store          *httpd.Store
}

func (s snap) key() string {
	keys := make([]string, 0, len(s.Params))
	for k := range s.Params {
		keys = append(keys, k)
	}
	sort.Strings(keys)
	var sb strings.Builder
	fmt.Fprintf(&sb, "I={%q %q} any=%q status=%d err=%q", s.IPath, s.IMethod, s.Any, s.Status, s.Err)
	for _, k := range keys {
		fmt.Fprintf(&sb, " %s=%q", k, s.Params[k])
	}
	return sb.String()
}

type record struct {
	Pre, In, Post snap
	Calls         int
	Route         int
	HadPre        bool
	HadPost       bool
	FirstIDs      []string // what helper goroutines of the request got from GetID() before anybody else asked
	Inner         *record  // the request this one's handler forwarded through the same Mux, if any
	InnerEscaped  any
}

type ctxKey struct{}

type table struct {
	mux       *httpd.Mux
	routes    []rm.Route
	names     []string
	relayMode int // 0 custom relay recovering handler panics, 1 custom relay around logger.Relay, 2 relay that lets handler panics escape ServeHTTP
	lg        *logger.Logger
	mu        sync.Mutex
	ids       map[string]bool
	dupID     string

	noRouteGen int // how often the no-route handler has been replaced
}

func takeSnap(t *table, s *httpd.Store) (sn snap) {
	defer func() {
		if r := recover(); r != nil {
			sn.Err = fmt.Sprint(r)
		}
	}()
	sn.Store = s
	if s.I != nil {
		sn.IPath, sn.IMethod = s.I.Path, s.I.Method
	}
	sn.Status = s.W.Status
	sn.ID = strings.Clone(s.GetID())
	sn.Params = map[string]string{}
	for _, n := range t.names {
		sn.Params[n] = strings.Clone(s.RouteParam(n))
	}
	sn.Any = strings.Clone(s.RouteParamAny())
	return sn
}

type panicMarker struct{ n int }

// replaceNoRoute installs a new no-route handler (HandleNoRoute between requests): from now on unmatched requests must
// reach this one, whatever Store they are served on.
func (t *table) replaceNoRoute() {
	t.noRouteGen++
	t.mux.HandleNoRoute(t.handlerGen(-1, t.noRouteGen))
}

func (t *table) handler(idx int) httpd.HandlerFunc { return t.handlerGen(idx, 0) }

func (t *table) handlerGen(idx int, gen int) httpd.HandlerFunc {
	return func(s *httpd.Store) {
		rec := s.R.Context().Value(ctxKey{}).(*record)
		rec.Calls++
		rec.Route = idx
		if idx == -1 && gen != t.noRouteGen {
			rec.Route = -3 // a no-route handler that has been replaced since
		}
		if fp := s.R.Header.Get("X-Forward-Path"); fp != "" {
			// forward another request through the same Mux, handing it this Store's ResponseWriter, before looking at
			// this request's own Store
			rec.Inner = &record{Route: -2}
			req2 := &http.Request{Method: s.R.Header.Get("X-Forward-Method"), URL: &url.URL{Path: fp}, Header: http.Header{}, RequestURI: fp, RemoteAddr: "192.0.2.1:1234"}
			req2 = req2.WithContext(context.WithValue(context.Background(), ctxKey{}, rec.Inner))
			func() {
				defer func() { rec.InnerEscaped = recover() }()
				t.mux.ServeHTTP(s.W, req2)
			}()
		}
		switch s.R.Header.Get("X-Swap") {
		case "W", "WP":
			// a middleware-style handler wraps the response writer of its Store
			s.W = &httpd.ResponseWriter{Origin: s.W}
		}
		switch s.R.Header.Get("X-Swap") {
		case "P", "WP":
			// ... or works on a Params of its own (a copy it may extend without touching the routing table's names)
			s.P = &httpd.Params{K: append([]string(nil), s.P.K...), V: append([]string(nil), s.P.V...)}
		}
		rec.In = takeSnap(t, s)
		if s.R.Header.Get("X-Append") != "" {
			// a handler (or a middleware in front of the real one) that attaches a parameter of its own to the request's
			// Params - a computed tenant, a default - for code further down; the Params are this request's
			s.P.K = append(s.P.K, "zz-attached")
			s.P.V = append(s.P.V, "by-the-handler")
		}
		if s.R.Header.Get("X-Panic") != "" {
			panic(panicMarker{idx})
		}
		if st := s.R.Header.Get("X-Status"); st != "" {
			s.W.WriteHeader(404)
		}
	}
}

func newTable(relayMode int) *table {
	t := &table{mux: httpd.NewMux(), relayMode: relayMode, ids: map[string]bool{}}
	t.lg = logger.New(logger.NewNanoHandler(io.Discard, logger.NewOptions(logger.LevelInfo, false, false)))
	t.names = []string{"zz-unused"}
	t.mux.HandleNoRoute(t.handler(-1))
	t.mux.HandleRelay(func(s *httpd.Store) {
		rec := s.R.Context().Value(ctxKey{}).(*record)
		if n, _ := strconv.Atoi(s.R.Header.Get("X-First-ID-Readers")); n > 0 {
			// the first thing that happens to this request: helper goroutines working for it (an audit trail, a tracing
			// span) ask for its ID at the same moment, before anybody else has
			ids := make([]string, n)
			var arrived atomic.Int32
			var wg sync.WaitGroup
			for i := 0; i < n; i++ {
				wg.Add(1)
				go func(i int) {
					defer wg.Done()
					arrived.Add(1)
					for spin := 0; arrived.Load() < int32(n); spin++ {
						if spin > 100 {
							runtime.Gosched()
						}
					}
					ids[i] = strings.Clone(s.GetID())
				}(i)
			}
			wg.Wait()
			rec.FirstIDs = ids
		}
		rec.Pre = takeSnap(t, s)
		rec.HadPre = true
		defer func() {
			rec.Post = takeSnap(t, s)
			rec.HadPost = true
		}()
		if t.relayMode == 1 {
			t.lg.Relay(s)
			return
		}
		if t.relayMode != 2 {
			defer func() {
				if r := recover(); r != nil {
					if _, ok := r.(panicMarker); !ok {
						panic(r)
					}
				}
			}()
		}
		s.I.HandlerFunc(s)
	})
	return t
}

func (t *table) add(r rm.Route) {
	idx := len(t.routes)
	t.routes = append(t.routes, r)
	t.mux.Handle(r.Pattern, r.Method, t.handler(idx))
	seen := map[string]bool{}
	t.names = t.names[:0]
	for _, r := range t.routes {
		for _, n := range r.Names {
			if n != rm.AnyName && !seen[n] {
				seen[n] = true
				t.names = append(t.names, n)
			}
		}
	}
	t.names = append(t.names, "zz-unused")
}

func (t *table) clone() *table {
	c := newTable(t.relayMode)
	for _, r := range t.routes {
		c.add(r)
	}
	return c
}

type nullWriter struct{ h http.Header }

func (w *nullWriter) Header() http.Header {
	if w.h == nil {
		w.h = http.Header{}
	}
	return w.h
}
func (w *nullWriter) Write(b []byte) (int, error) { return len(b), nil }
func (w *nullWriter) WriteHeader(int)             {}

type request struct {
	method, path string
	panics       bool
	writes       bool
	forward      *request // the handler forwards this request through the same Mux first (Store.W as the writer)
	swap         string   // "", "W", "P", "WP": the handler replaces Store.W / Store.P by objects of its own
	appends      bool     // the handler appends a parameter of its own to Store.P
	clientTag    string   // the request carries request-id / tracing headers with this value
	firstReaders int      // that many goroutines of the request ask for its ID at once, before anybody else does
}

func (rq request) String() string {
	s := fmt.Sprintf("%s %q", rq.method, rq.path)
	if rq.forward != nil {
		s += fmt.Sprintf(" [handler forwards %s %q through the Mux]", rq.forward.method, rq.forward.path)
	}
	if rq.swap != "" {
		s += " [handler replaces Store." + strings.Join(strings.Split(rq.swap, ""), " and Store.") + "]"
	}
	if rq.panics {
		s += " [handler panics]"
	}
	if rq.writes {
		s += " [handler writes 404]"
	}
	return s
}

func (t *table) serve(rq request) (rec *record, escaped any) {
	rec = &record{Route: -2}
	req := &http.Request{Method: rq.method, URL: &url.URL{Path: rq.path}, Header: http.Header{}, RequestURI: rq.path, RemoteAddr: "192.0.2.1:1234"}
	if rq.panics {
		req.Header.Set("X-Panic", "1")
	}
	if rq.writes {
		req.Header.Set("X-Status", "1")
	}
	if rq.swap != "" {
		req.Header.Set("X-Swap", rq.swap)
	}
	if rq.firstReaders > 0 {
		req.Header.Set("X-First-ID-Readers", strconv.Itoa(rq.firstReaders))
	}
	if rq.appends {
		req.Header.Set("X-Append", "1")
	}
	if rq.clientTag != "" {
		// what a client, a proxy or a tracing library puts on a request: the Store's ID is the Mux's own all the same
		for _, h := range []string{"X-Request-Id", "X-Request-ID", "Request-Id", "X-Correlation-Id", "X-Trace-Id", "Traceparent"} {
			req.Header.Set(h, rq.clientTag)
		}
	}
	if rq.forward != nil {
		req.Header.Set("X-Forward-Method", rq.forward.method)
		req.Header.Set("X-Forward-Path", rq.forward.path)
	}
	req = req.WithContext(context.WithValue(context.Background(), ctxKey{}, rec))
	func() {
		defer func() { escaped = recover() }()
		t.mux.ServeHTTP(&nullWriter{}, req)
	}()
	return rec, escaped
}

// expectation from the reference router
func (t *table) model(rq request) (route int, key string) {
	sel, bind, _ := rm.Select(t.routes, rq.method, rq.path)
	sn := snap{Params: map[string]string{}}
	for _, n := range t.names {
		sn.Params[n] = bind[n]
	}
	sn.Any = bind[rm.AnyName]
	if sel >= 0 {
		sn.IPath, sn.IMethod = t.routes[sel].Pattern, t.routes[sel].Method
	}
	return sel, sn.key()
}

// judge compares the record of a request on the long-lived Mux with a fresh Mux and the model.
func (t *table) judge(rq request, rec *record, escaped any) string {
	if rq.forward != nil && rec.Inner != nil {
		if m := t.judgeOne(*rq.forward, rec.Inner, rec.InnerEscaped, false); m != "" {
			return "forwarded request " + rq.forward.String() + ": " + m
		}
	}
	return t.judgeOne(rq, rec, escaped, true)
}

func (t *table) judgeOne(rq request, rec *record, escaped any, compareFresh bool) string {
	if _, own := escaped.(panicMarker); own && t.relayMode == 2 && rq.panics {
		// the relay of this table does not contain handler panics: the escape is the harness' own doing.
		// What matters is that later requests are unaffected; this request is judged up to the handler.
		escaped = nil
	}
	if escaped != nil {
		return fmt.Sprintf("panic escaped ServeHTTP: %v", escaped)
	}
	for name, sn := range map[string]snap{"relay(before)": rec.Pre, "handler": rec.In, "relay(after)": rec.Post} {
		if sn.Err != "" {
			return fmt.Sprintf("a Store accessor panicked in %s: %s", name, sn.Err)
		}
	}
	if !rec.HadPre || !rec.HadPost || rec.Calls != 1 {
		return fmt.Sprintf("relay before=%v after=%v handler calls=%d, want one each", rec.HadPre, rec.HadPost, rec.Calls)
	}
	if rec.Pre.Status != 0 {
		return fmt.Sprintf("W.Status on entry = %d, want 0", rec.Pre.Status)
	}
	for _, id := range rec.FirstIDs {
		if id != rec.Pre.ID {
			return fmt.Sprintf("goroutines of one request asking for its ID at the same time, as the first to ask, got %q; the relay then got %q", rec.FirstIDs, rec.Pre.ID)
		}
	}
	if rec.Pre.ID != rec.In.ID || rec.In.ID != rec.Post.ID {
		return fmt.Sprintf("request ID changed during the request: %q / %q / %q", rec.Pre.ID, rec.In.ID, rec.Post.ID)
	}
	if len(rec.Pre.ID) < 10 {
		return fmt.Sprintf("request ID %q is shorter than prefix + counter", rec.Pre.ID)
	}
	t.mu.Lock()
	dup := t.ids[rec.Pre.ID]
	t.ids[rec.Pre.ID] = true
	t.mu.Unlock()
	if dup {
		return fmt.Sprintf("request ID %q was already used by an earlier request of this Mux", rec.Pre.ID)
	}
	// (ii) reference router
	strip := func(s snap) string { s.Status = 0; return s.key() }
	if strings.HasPrefix(rq.path, "/") {
		wantRoute, wantKey := t.model(rq)
		if rec.Route == -3 {
			return "a no-route handler that had been replaced by a later HandleNoRoute call was invoked"
		}
		if rec.Route != wantRoute {
			return fmt.Sprintf("selected route %d, reference router says %d", rec.Route, wantRoute)
		}
		for name, sn := range map[string]snap{"relay(before)": rec.Pre, "handler": rec.In, "relay(after)": rec.Post} {
			if strip(sn) != wantKey {
				return fmt.Sprintf("%s observed %s\n  reference router: %s", name, strip(sn), wantKey)
			}
		}
	}
	if !compareFresh {
		return ""
	}
	// (i) the same request on a fresh Mux carrying the current table
	fresh := t.clone()
	frec, fesc := fresh.serve(rq)
	if fesc != nil {
		return "" // the request itself is the problem (C04's business), not the history
	}
	if rec.Route != frec.Route {
		return fmt.Sprintf("selected route %d, a fresh Mux selects %d", rec.Route, frec.Route)
	}
	for _, pair := range [][2]snap{{rec.Pre, frec.Pre}, {rec.In, frec.In}, {rec.Post, frec.Post}} {
		if pair[0].key() != pair[1].key() {
			return fmt.Sprintf("observed %s\n  fresh Mux:  %s", pair[0].key(), pair[1].key())
		}
	}
	return ""
}

// ---- generators ----

var routePool = []string{
	"/", "/a", "/a/:x", "/b/:x/:y", "/u/:a/:b", "/u/:a", "/c/:p/:q/:r/:s", "/files/*", "/d/:x/*", "/:y", "/:y/z", "/e/:k/f/:x", "/*", "/g/:n/:m/*", "/a/b", "/h/:x/:y/:z",
}

var widePool = []string{
	// wide routes: the same number of parameters under other names, the same names in another order, one more, and a
	// tail (whatever a Store remembers about the parameters of its last request - an index, a high-water mark)
	"/w/:a/:b/:c/:d/:e/:f/:g/:h/:i", "/v/:i/:h/:g/:f/:e/:d/:c/:b/:a", "/t/:p1/:p2/:p3/:p4/:p5/:p6/:p7/:p8/:p9", "/s/:a/:b/:c/:d/:e/:f/:g/:h/:i/:j", "/r/:p9/:p8/:p7/:p6/:p5/:p4/:p3/:p2/:p1/*",
	"/q/:k1/:k2/:k3/:k4/:k5/:k6/:k7/:k8/:k9/:k10/:k11/:k12/:k13/:k14/:k15/:k16/:k17",
}

func genPathFor(routes []rm.Route) *rapid.Generator[string] {
	match := rapid.Custom(func(t *rapid.T) string {
		if len(routes) == 0 {
			return "/"
		}
		r := rapid.SampledFrom(routes).Draw(t, "route")
		var sb strings.Builder
		for _, e := range r.Elems {
			sb.WriteString("/")
			switch e.Kind {
			case rm.Lit:
				sb.WriteString(e.Text)
			case rm.Param:
				sb.WriteString(rapid.SampledFrom([]string{"1", "2", "v", "w", "", "long-value-0123456789"}).Draw(t, "pv"))
			case rm.Any:
				sb.WriteString(rapid.SampledFrom([]string{"", "t", "t/u", "t//u/"}).Draw(t, "tail"))
			}
		}
		if sb.Len() == 0 {
			return "/"
		}
		return sb.String()
	})
	miss := rapid.SampledFrom([]string{"/nope", "/u/1/2/3", "/b/1", "/c/1/2/3", "/a/b/c", "/zzz/1/2/3/4/5", "", "/u//", "/e/1/g/2", "/h/1/2"})
	// request targets that are not rooted paths: the asterisk form of OPTIONS, what a client that forgets the slash
	// sends. Which handler they reach is not this property's business; what the next request finds in its Store is.
	odd := rapid.SampledFrom([]string{"*", "a", "a/b", "u/1/2", "*/", ":x", "files/t", "\\a", "?"})
	return rapid.OneOf(match, match, match, match, match, miss, miss, odd)
}

// counterBoundaries: where a request counter of some width, or its base-36 text, rolls over
var counterBoundaries = []uint64{1 << 8, 1 << 15, 1 << 16, 36 * 36 * 36 * 36, 1 << 24, 1 << 31, 1 << 32, 36 * 36 * 36 * 36 * 36 * 36 * 36, 1 << 48, 1 << 53}

// ageMux moves the request counter of a Mux forward to n, whatever integer type it has today. It reports false when the
// counter is already at or past n, when n does not fit, or when there is no field of that name any more.
func ageMux(mux *httpd.Mux, n uint64) bool {
	f := reflect.ValueOf(mux).Elem().FieldByName("storeID")
	if !f.IsValid() || !f.CanAddr() {
		return false
	}
	p := unsafe.Pointer(f.UnsafeAddr())
	switch {
	case f.Kind() == reflect.Uint64:
		if atomic.LoadUint64((*uint64)(p)) >= n {
			return false
		}
		atomic.StoreUint64((*uint64)(p), n)
	case f.Kind() == reflect.Uint32:
		if n > 1<<32-1 || uint64(atomic.LoadUint32((*uint32)(p))) >= n {
			return false
		}
		atomic.StoreUint32((*uint32)(p), uint32(n))
	case f.Type() == reflect.TypeOf(atomic.Uint64{}):
		if (*atomic.Uint64)(p).Load() >= n {
			return false
		}
		(*atomic.Uint64)(p).Store(n)
	case f.Type() == reflect.TypeOf(atomic.Uint32{}):
		if n > 1<<32-1 || uint64((*atomic.Uint32)(p).Load()) >= n {
			return false
		}
		(*atomic.Uint32)(p).Store(uint32(n))
	default:
		return false
	}
	return true
}

func runMachine(t *rapid.T, concurrent bool) {
	tb := newTable(rapid.IntRange(0, 2).Draw(t, "relayMode"))
	var hist []string
	nontrivial := false
	var lastStore *httpd.Store
	lastNames := "-"
	lastSpecial := false // previous request matched nothing or panicked
	registeredSinceMoreParams := false
	maxParams := 0
	fail := func(msg string) {
		if msg != "" {
			t.Fatalf("%s\nhistory:\n  %s", msg, strings.Join(hist, "\n  "))
		}
	}
	register := func(t *rapid.T) {
		// a pattern may be registered again under another method: in particular the exact method after requests have
		// already been served through the pattern's '*' route (or the other way round)
		p := rapid.SampledFrom(routePool).Draw(t, "pattern")
		if rapid.IntRange(0, 3).Draw(t, "wideRoute") == 0 {
			p = rapid.SampledFrom(widePool).Draw(t, "widePattern")
		}
		if len(tb.routes) > 0 && rapid.IntRange(0, 2).Draw(t, "samePatternOtherMethod") == 0 {
			p = tb.routes[rapid.IntRange(0, len(tb.routes)-1).Draw(t, "which")].Pattern
			if rapid.Bool().Draw(t, "otherParameterNames") {
				// the same shape under another method may well call its parameters differently
				frags := strings.Split(p, "/")
				for j, f := range frags {
					if len(f) > 1 && f[0] == ':' {
						frags[j] = f + rapid.SampledFrom([]string{"2", "_other", "X"}).Draw(t, "suffix")
					}
				}
				p = strings.Join(frags, "/")
			}
		}
		m := rapid.SampledFrom([]string{"GET", "GET", "*", "POST", "PUT"}).Draw(t, "method")
		r, ok := rm.NewRoute(p, m)
		if !ok {
			t.Fatalf("pool route invalid: %s", p)
		}
		for _, a := range tb.routes {
			if rm.SameShape(a, r) {
				t.Skip("duplicate shape")
			}
		}
		tb.add(r)
		hist = append(hist, "register "+m+" "+p)
		if len(r.Names) > maxParams {
			if lastStore != nil {
				registeredSinceMoreParams = true
			}
			maxParams = len(r.Names)
		}
	}
	doRequest := func(t *rapid.T, panics bool) {
		rq := request{
			method: rapid.SampledFrom([]string{"GET", "GET", "POST", "PUT"}).Draw(t, "method"),
			path:   genPathFor(tb.routes).Draw(t, "path"),
			panics: panics,
			writes: !panics && rapid.IntRange(0, 3).Draw(t, "writes") == 0,
		}
		if rapid.IntRange(0, 5).Draw(t, "swaps") == 0 {
			rq.swap = rapid.SampledFrom([]string{"W", "P", "WP"}).Draw(t, "swap")
			ev.Label("request:handler_replaces_Store_W_or_P")
		}
		if rq.swap == "" && rapid.IntRange(0, 4).Draw(t, "appends") == 0 {
			rq.appends = true
			ev.Label("request:handler_appends_a_parameter_of_its_own")
		}
		if rapid.IntRange(0, 4).Draw(t, "tagged") == 0 {
			rq.clientTag = rapid.SampledFrom([]string{"client-retry-1", "client-retry-1", "00-4bf92f3577b34da6a3ce929d0e0e4736-00f067aa0ba902b7-01", "x"}).Draw(t, "clientTag")
			ev.Label("request:carries_request-id_and_tracing_headers")
		}
		if rapid.IntRange(0, 5).Draw(t, "idReaders") == 0 {
			rq.firstReaders = rapid.IntRange(2, 4).Draw(t, "firstReaders")
			ev.Label("request:its_ID_is_first_read_by_several_goroutines_at_once")
		}
		if rapid.IntRange(0, 5).Draw(t, "forwards") == 0 {
			rq.forward = &request{method: rapid.SampledFrom([]string{"GET", "POST"}).Draw(t, "fwdMethod"), path: genPathFor(tb.routes).Draw(t, "fwdPath")}
			ev.Label("request:handler_forwards_another_request_through_the_Mux")
		}
		hist = append(hist, "request "+rq.String())
		rec, esc := tb.serve(rq)
		// classification before judging
		reused := lastStore != nil && rec.Pre.Store == lastStore
		names := "-"
		if rec.Route >= 0 && rec.Route < len(tb.routes) {
			names = strings.Join(tb.routes[rec.Route].Names, ",")
		}
		if reused {
			ev.Label("request:served_by_recycled_store")
			if lastSpecial || lastNames != names || registeredSinceMoreParams {
				nontrivial = true
				ev.Label("request:recycled_after_different_params_or_noroute_or_panic_or_registration")
			}
		}
		fail(tb.judge(rq, rec, esc))
		lastStore = rec.Pre.Store
		lastNames = names
		lastSpecial = rec.Route == -1 || panics
		registeredSinceMoreParams = false
	}
	// a second Mux in the same process, with routes of its own: its traffic is part of the history of the process, but
	// nothing of it may show in what the handlers of the first Mux observe (and the other way round)
	var tb2 *table
	requestOnOtherMux := func(t *rapid.T) {
		if tb2 == nil {
			tb2 = newTable(rapid.IntRange(0, 2).Draw(t, "relayMode2"))
			for _, p := range rapid.SliceOfNDistinct(rapid.OneOf(rapid.SampledFrom(routePool), rapid.SampledFrom(routePool), rapid.SampledFrom(widePool)), 1, 4, func(s string) string { return s }).Draw(t, "routes2") {
				r, ok := rm.NewRoute(p, "*")
				if !ok {
					t.Fatalf("pool route invalid: %s", p)
				}
				dup := false
				for _, a := range tb2.routes {
					dup = dup || rm.SameShape(a, r)
				}
				if !dup {
					tb2.add(r)
				}
			}
		}
		rq := request{
			method: rapid.SampledFrom([]string{"GET", "POST"}).Draw(t, "method"),
			path:   genPathFor(tb2.routes).Draw(t, "path"),
			panics: rapid.IntRange(0, 5).Draw(t, "panics") == 0,
		}
		hist = append(hist, "request on the second Mux "+rq.String())
		rec, esc := tb2.serve(rq)
		if m := tb2.judge(rq, rec, esc); m != "" {
			fail("second Mux: " + m)
		}
		ev.Label("history:second_Mux_served_requests_in_between")
	}
	actions := map[string]func(*rapid.T){
		"replaceNoRoute": func(t *rapid.T) {
			tb.replaceNoRoute()
			hist = append(hist, "HandleNoRoute(another handler)")
			ev.Label("history:no_route_handler_replaced")
		},
		"requestOnOtherMux": requestOnOtherMux,
		"register":          register,
		"ageTheMux": func(t *rapid.T) {
			// a Mux that has been serving for a long time: "unique within the Mux" has no expiry date, and nobody can
			// wait for four thousand million requests - the request counter is moved forward to just below a boundary
			// of some width (round twenty-three). Forward only; a Mux whose counter cannot be found is left alone.
			to := rapid.SampledFrom(counterBoundaries).Draw(t, "servedSoFar") - uint64(rapid.IntRange(1, 3).Draw(t, "shortOf"))
			if !ageMux(tb.mux, to) {
				t.Skip("the counter is already past that, or cannot be found")
			}
			hist = append(hist, fmt.Sprintf("(the Mux has now served %d requests)", to))
			ev.Label("history:mux_aged_to_a_counter_boundary")
		},
		"request":       func(t *rapid.T) { doRequest(t, false) },
		"request2":      func(t *rapid.T) { doRequest(t, false) },
		"requestPanics": func(t *rapid.T) { doRequest(t, true) },
	}
	if concurrent {
		actions["burst"] = func(t *rapid.T) {
			g := rapid.IntRange(2, 8).Draw(t, "goroutines")
			per := rapid.IntRange(1, 20).Draw(t, "perGoroutine")
			reqs := make([][]request, g)
			for i := range reqs {
				for j := 0; j < per; j++ {
					reqs[i] = append(reqs[i], request{
						method: rapid.SampledFrom([]string{"GET", "POST"}).Draw(t, "method"),
						path:   genPathFor(tb.routes).Draw(t, "path"),
						panics: rapid.IntRange(0, 5).Draw(t, "panics") == 0,
					})
				}
			}
			hist = append(hist, fmt.Sprintf("burst %d goroutines x %d requests", g, per))
			msgs := make([]string, g)
			var wg sync.WaitGroup
			for i := 0; i < g; i++ {
				wg.Add(1)
				go func(i int) {
					defer wg.Done()
					for _, rq := range reqs[i] {
						rec, esc := tb.serve(rq)
						if m := tb.judge(rq, rec, esc); m != "" && msgs[i] == "" {
							msgs[i] = "in burst, request " + rq.String() + ": " + m
						}
					}
				}(i)
			}
			wg.Wait()
			for _, m := range msgs {
				fail(m)
			}
			ev.Label("history:burst")
			lastStore = nil
		}
	}
	// start with one or two routes so requests have something to hit
	register(t)
	t.Repeat(actions)
	ev.Case(nontrivial, ev.Hash(hist...), func() string { return strings.Join(hist, "; ") })
}

func TestSequential(t *testing.T) {
	// Store reuse through sync.Pool is what this test is about: keep it deterministic (the driver runs this
	// pass with GOMAXPROCS=1 and without -race, which makes sync.Pool drop items at random); collect garbage
	// only between histories.
	defer debug.SetGCPercent(debug.SetGCPercent(-1))
	rt.Check(t, 1500, 120000, func(t *rapid.T) {
		runtime.GC()
		runMachine(t, false)
	})
}

func TestWithBursts(t *testing.T) {
	rt.Check(t, 200, 12000, func(t *rapid.T) { runMachine(t, true) })
}

func TestRegression(t *testing.T) {
	mk := func(specs ...string) *table {
		tb := newTable(0)
		for _, s := range specs {
			m, p, _ := strings.Cut(s, " ")
			r, _ := rm.NewRoute(p, m)
			tb.add(r)
		}
		return tb
	}
	// stale parameter names after a request that matched nothing
	{
		tb := mk("GET /u/:a/:b")
		for _, rq := range []request{{method: "GET", path: "/u/1/2"}, {method: "GET", path: "/nope"}, {method: "GET", path: "/u/3"}, {method: "GET", path: "/u/4/5"}} {
			rec, esc := tb.serve(rq)
			if m := tb.judge(rq, rec, esc); m != "" {
				t.Errorf("after /u/:a/:b was served, request %s: %s", rq, m)
			}
		}
		ev.Case(false, 0, nil)
	}
	// a route with more parameters registered after the pool already holds a Store
	{
		tb := mk("GET /a/:x")
		rq := request{method: "GET", path: "/a/1"}
		rec, esc := tb.serve(rq)
		if m := tb.judge(rq, rec, esc); m != "" {
			t.Error(m)
		}
		r, _ := rm.NewRoute("/b/:x/:y", "GET")
		tb.add(r)
		rq = request{method: "GET", path: "/b/1/2"}
		rec, esc = tb.serve(rq)
		if m := tb.judge(rq, rec, esc); m != "" {
			t.Errorf("after registering /b/:x/:y on a Mux that already served /a/1, request %s: %s", rq, m)
		}
		ev.Case(false, 0, nil)
	}
	// status and id residue after a panicking request
	{
		tb := mk("GET /a/:x", "GET /files/*")
		for _, rq := range []request{{method: "GET", path: "/a/1", writes: true}, {method: "GET", path: "/a/2", panics: true}, {method: "GET", path: "/files/x/y"}, {method: "GET", path: "/a/3"}} {
			rec, esc := tb.serve(rq)
			if m := tb.judge(rq, rec, esc); m != "" {
				t.Errorf("request %s: %s", rq, m)
			}
		}
		ev.Case(false, 0, nil)
	}
}
