// C17 — ResolveUrlPath never leaves the base directory.
package c17

import (
	"fmt"
	"os"
	"path/filepath"
	"strings"
	"sync"
	"testing"

	"github.com/whoisnian/glb/util/fsutil"
	"pgregory.net/rapid"

	"verif/harness/internal/ev"
	"verif/harness/internal/rt"
)

func TestMain(m *testing.M) {
	ev.Rule("cases = (base, urlPath) pairs: exhaustive strings over {/ . a \\} x a fixed base list, plus rapid-generated arbitrary strings and bases; " +
		"non-trivial = urlPath has a '..' segment, lacks a leading slash or contains a backslash; distinct by (base, urlPath)")
	ev.Assume("POSIX path semantics (separator '/', backslash is an ordinary byte)")
	ev.Assume("containment is judged lexically against a fixed fake working directory; the function maps strings to strings, whatever exists on disk")
	// bases that really exist, with files, a symlink that leads out of the base, one that leads back into it, and the
	// base itself reached through a symlink: the result is a function of the two strings, whatever is on the disk
	dir, err := os.MkdirTemp("", "c17-")
	if err == nil {
		base := filepath.Join(dir, "base")
		os.MkdirAll(filepath.Join(base, "dir"), 0o755)
		os.MkdirAll(filepath.Join(dir, "outside"), 0o755)
		os.WriteFile(filepath.Join(base, "file.txt"), []byte("x"), 0o644)
		os.WriteFile(filepath.Join(base, "dir", "inner.txt"), []byte("x"), 0o644)
		os.WriteFile(filepath.Join(dir, "outside", "secret.txt"), []byte("x"), 0o644)
		os.Symlink("../outside", filepath.Join(base, "pub"))
		os.Symlink(".", filepath.Join(base, "self"))
		os.Symlink(filepath.Join(dir, "outside", "secret.txt"), filepath.Join(base, "link.txt"))
		os.Symlink(base, filepath.Join(dir, "baselink"))
		realBases = []string{base, base + "/", filepath.Join(dir, "baselink"), filepath.Join(base, "dir"), filepath.Join(base, "pub")}
		// bases that name something that exists and is not a directory (a regular file, a link to one, a device, this
		// test binary): "for all non-empty bases" - the result stays at or beneath the string that was given, it is
		// not for the function to decide that the caller must have meant the directory next to it (round twenty-two)
		realBases = append(realBases, filepath.Join(base, "file.txt"), filepath.Join(base, "link.txt"), filepath.Join(base, "dir", "inner.txt"), filepath.Join(base, "file.txt")+"/", "/dev/null")
		if exe, err := os.Executable(); err == nil {
			realBases = append(realBases, exe)
		}
	}
	code := m.Run()
	if dir != "" {
		os.RemoveAll(dir)
	}
	ev.Flush()
	os.Exit(code)
}

var realBases []string // names that exist on disk: directories, and (since round twenty-two) things that are not (see TestMain)

var realSegs = []string{"file.txt", "dir", "inner.txt", "pub", "secret.txt", "self", "link.txt"}

const fakeCwd = "/w0/w1/w2/w3/w4/w5/w6/w7/w8/w9/w10/w11/w12/w13/w14/w15"

// norm resolves an absolute path lexically (independent of path.Clean).
func norm(abs string) string {
	var segs []string
	for _, s := range strings.Split(abs, "/") {
		switch s {
		case "", ".":
		case "..":
			if len(segs) > 0 {
				segs = segs[:len(segs)-1]
			}
		default:
			segs = append(segs, s)
		}
	}
	return "/" + strings.Join(segs, "/")
}

func absolutize(p string) string {
	if strings.HasPrefix(p, "/") {
		return norm(p)
	}
	return norm(fakeCwd + "/" + p)
}

// lexClean is an independent re-statement of lexical path cleaning.
func lexClean(p string) string {
	rooted := strings.HasPrefix(p, "/")
	var out []string
	for _, s := range strings.Split(p, "/") {
		switch s {
		case "", ".":
		case "..":
			if len(out) > 0 && out[len(out)-1] != ".." {
				out = out[:len(out)-1]
			} else if !rooted {
				out = append(out, "..")
			}
		default:
			out = append(out, s)
		}
	}
	s := strings.Join(out, "/")
	if rooted {
		return "/" + s
	}
	if s == "" {
		return "."
	}
	return s
}

func hasDotSegment(u string) bool {
	for _, s := range strings.Split(u, "/") {
		if s == "." || s == ".." {
			return true
		}
	}
	return false
}

func hasDotDot(u string) bool {
	for _, s := range strings.Split(u, "/") {
		if s == ".." {
			return true
		}
	}
	return false
}

func nontrivial(u string) bool {
	return hasDotDot(u) || !strings.HasPrefix(u, "/") || strings.Contains(u, "\\")
}

// check is the oracle; it returns "" when the property holds for (base,u).
func check(base, u string) string {
	res := fsutil.ResolveUrlPath(base, u)
	b, r := absolutize(base), absolutize(res)
	if !(r == b || b == "/" || strings.HasPrefix(r, b+"/")) {
		return fmt.Sprintf("escape: ResolveUrlPath(%q, %q) = %q; abs(result)=%q is not under abs(base)=%q", base, u, res, r, b)
	}
	if !hasDotSegment(u) {
		want := lexClean(base + "/" + u)
		if res != want {
			return fmt.Sprintf("join identity: ResolveUrlPath(%q, %q) = %q, want %q (url path has no dot segment)", base, u, res, want)
		}
	}
	return ""
}

var fixedBases = []string{
	"/data", "/", "/data/", "/a/b/c", "/a//b/", "/a/../b", "/a/./b/..", "data", "./data", ".", "..", "../x", "a/../..", "/with space/b\\c",
	// names a shell would expand but a path function must take literally
	"~", "~/public", "~/", "~root/x", "$HOME/pub", "/srv/~/x",
}

func TestRegression(t *testing.T) {
	cases := [][2]string{
		{"/data", ""}, {"/data", "/"}, {"/data", "/../../etc/passwd"}, {"/data", "../../etc/passwd"}, {"/data", ".."},
		{"/data", "/a/../../b"}, {"/data", "//a//b//"}, {"/data", "\\..\\..\\x"}, {"/data", "/..a/b"}, {"/data", "/a/..."},
		{".", "../x"}, {"..", "../x"}, {"a/../..", "/../../y"}, {"/", "/../.."}, {"/data", "/./"}, {"/data", "/%2e%2e/x"},
	}
	for _, c := range cases {
		if msg := check(c[0], c[1]); msg != "" {
			t.Error(msg)
		}
		ev.Case(nontrivial(c[1]), ev.Hash(c[0], c[1]), func() string {
			return fmt.Sprintf("base=%q url=%q -> %q", c[0], c[1], fsutil.ResolveUrlPath(c[0], c[1]))
		})
	}
}

// TestExhaustive enumerates every string up to length L over {/ . a \} against every fixed base.
func TestExhaustive(t *testing.T) {
	L := 7
	if rt.Thorough() {
		L = 8
	}
	alphabet := []byte{'/', '.', 'a', '\\'}
	si, sn := rt.Shard()
	var n, idx int64
	buf := make([]byte, 0, L)
	var rec func()
	fail := 0
	rec = func() {
		idx++
		if int(idx%int64(sn)) == si {
			u := string(buf)
			nt := nontrivial(u)
			for _, base := range fixedBases {
				if msg := check(base, u); msg != "" {
					fail++
					if fail <= 5 {
						t.Error(msg)
					}
				}
				n++
				ev.Case(nt, ev.Hash(base, u), func() string {
					return fmt.Sprintf("base=%q url=%q -> %q", base, u, fsutil.ResolveUrlPath(base, u))
				})
			}
		}
		if len(buf) == L {
			return
		}
		for _, c := range alphabet {
			buf = append(buf, c)
			rec()
			buf = buf[:len(buf)-1]
		}
	}
	rec()
	if sn == 1 {
		ev.Exhaustive(fmt.Sprintf("all url paths of length <= %d over {'/','.','a','\\\\'} (%d strings) x %d bases", L, idx, len(fixedBases)))
	} else {
		ev.Exhaustive(fmt.Sprintf("shard %d/%d of all url paths of length <= %d over {'/','.','a','\\\\'} x %d bases (union of shards is complete)", si, sn, L, len(fixedBases)))
	}
	ev.LabelN("exhaustive_pairs", n)
}

var segPool = []string{"..", ".", "a", "b", "...", "..a", "a..", ".a", "", " ", "\\", "..\\", "%2e%2e", "..;", "é", "\x01", "~", "-", "a b", "....", ". .", ".\x00.", "\x00..", "..\x00", "a\x00b", "\x00", ".\t.", "..\r"}

var longSeg100, longSeg130, longSeg300 = strings.Repeat("d", 100), strings.Repeat("d", 130), strings.Repeat("d", 300)

func genURL() *rapid.Generator[string] {
	structured := rapid.Custom(func(t *rapid.T) string {
		n := rapid.IntRange(0, 8).Draw(t, "nseg")
		var sb strings.Builder
		if rapid.IntRange(0, 3).Draw(t, "lead") > 0 {
			sb.WriteString(strings.Repeat("/", rapid.IntRange(1, 3).Draw(t, "nlead")))
		}
		for i := 0; i < n; i++ {
			if rapid.IntRange(0, 3).Draw(t, "existingName") == 0 {
				sb.WriteString(rapid.SampledFrom(realSegs).Draw(t, "realseg")) // names that exist under the real bases
			} else {
				sb.WriteString(rapid.SampledFrom(segPool).Draw(t, "seg"))
			}
			sb.WriteString(strings.Repeat("/", rapid.IntRange(0, 2).Draw(t, "sep")))
		}
		return sb.String()
	})
	dots := rapid.Custom(func(t *rapid.T) string {
		return strings.Repeat(rapid.SampledFrom([]string{"../", "/..", "..", ".", "./", "//"}).Draw(t, "u"), rapid.IntRange(1, 60).Draw(t, "rep")) +
			rapid.SampledFrom([]string{"", "etc/passwd", "..", "/"}).Draw(t, "tail")
	})
	arbitrary := rapid.Custom(func(t *rapid.T) string {
		bs := rapid.SliceOfN(rapid.ByteRange(0, 255), 0, 40).Draw(t, "bytes") // every byte value: a Go string may hold NUL as well
		return string(bs)
	})
	long := rapid.Custom(func(t *rapid.T) string {
		n := rapid.SampledFrom([]int{255, 256, 1024, 4097, 20000}).Draw(t, "len")
		unit := rapid.SampledFrom([]string{"a/", "../", "a/../", "./", "x", "../../a/", "\\../"}).Draw(t, "unit")
		return rapid.SampledFrom([]string{"", "/", "//"}).Draw(t, "lead") + strings.Repeat(unit, n/len(unit)+1)[:n] + rapid.SampledFrom([]string{"", "..", "/..", "/../.."}).Draw(t, "tail")
	})
	// climbing first, then a long ordinary remainder: the cleaned path itself is long (a result that outgrows a fixed buffer
	// or a fast path for short results), and the dot-dot segments come before anything they could cancel against
	climbThenLong := rapid.Custom(func(t *rapid.T) string {
		var sb strings.Builder
		sb.WriteString(rapid.SampledFrom([]string{"", "/", "//"}).Draw(t, "lead"))
		for i, n := 0, rapid.IntRange(0, 6).Draw(t, "nclimb"); i < n; i++ {
			sb.WriteString(rapid.SampledFrom([]string{"../", "../", "..//", "a/../../", "./../", ".../", "b/"}).Draw(t, "climb"))
		}
		total := rapid.SampledFrom([]int{30, 60, 100, 118, 120, 126, 127, 128, 129, 140, 200, 255, 256, 257, 511, 513, 1023, 1025, 4095, 4097}).Draw(t, "tailLen") +
			rapid.IntRange(-3, 3).Draw(t, "jitter")
		segLen := rapid.SampledFrom([]int{1, 2, 7, 64, 1 << 20}).Draw(t, "segLen")
		for total > 0 {
			k := min(segLen, total)
			sb.WriteString(strings.Repeat(rapid.SampledFrom([]string{"a", "b", "é", "."}).Draw(t, "fill"), k)[:k])
			total -= k
			if total > 0 {
				sb.WriteString("/")
				total--
			}
		}
		sb.WriteString(rapid.SampledFrom([]string{"", "", "/", "/..", "/../..", "/./"}).Draw(t, "tail"))
		return sb.String()
	})
	// request targets in absolute form and other things that look like a URL with a scheme: to this function they are
	// names like any other (a colon, two slashes, a host-like segment)
	schemeLike := rapid.Custom(func(t *rapid.T) string {
		head := rapid.SampledFrom([]string{"http://host", "https://example.com:8443", "a://a", "s3://bucket", "x://h", "file://", "HTTP://H", "//host", "a:", "http:", "http:/", "://h", "mailto:a@b", "/http://h", "ftp://u:p@h", "urn:x:y", "%68ttp://h", "http://[::1]"}).Draw(t, "head")
		tail := rapid.SampledFrom([]string{"", "/", "/index.html", "/a/a", "/a%2fb", "/../x", "/..", "/./a", "//x", "/a/../../b", "?q=1", "#frag", "/%2e%2e/x"}).Draw(t, "tail")
		return head + tail
	})
	return rapid.OneOf(structured, structured, dots, arbitrary, structured, dots, arbitrary, long, climbThenLong, schemeLike, rapid.StringOfN(rapid.RuneFrom([]rune{'/', '.', 'a', '\\', '%', ';', ' '}), 0, 30, -1))
}

func genBase() *rapid.Generator[string] {
	built := rapid.Custom(func(t *rapid.T) string {
		var sb strings.Builder
		if rapid.Bool().Draw(t, "abs") {
			sb.WriteString("/")
		}
		n := rapid.IntRange(0, 5).Draw(t, "n")
		for i := 0; i < n; i++ {
			sb.WriteString(rapid.SampledFrom([]string{"a", "b", "..", ".", "data", "x y", "b\\c", "é", "...", "..a", "~", "~a", "$HOME", longSeg100, longSeg130, longSeg300}).Draw(t, "seg"))
			sb.WriteString(strings.Repeat("/", rapid.IntRange(0, 2).Draw(t, "sep")))
		}
		s := sb.String()
		if s == "" {
			s = "."
		}
		return s
	})
	if len(realBases) > 0 {
		return rapid.OneOf(rapid.SampledFrom(fixedBases), built, rapid.SampledFrom(realBases))
	}
	return rapid.OneOf(rapid.SampledFrom(fixedBases), built)
}

func TestGenerated(t *testing.T) {
	rt.Check(t, 20000, 8000000, func(t *rapid.T) {
		base := genBase().Draw(t, "base")
		u := genURL().Draw(t, "url")
		// the result is a function of the two strings: not of the home directory, the working directory or the shell
		if rapid.IntRange(0, 3).Draw(t, "changeEnvironment") == 0 {
			k := rapid.SampledFrom([]string{"HOME", "HOME", "PWD", "SHELL", "TMPDIR"}).Draw(t, "envName")
			v := rapid.SampledFrom([]string{"", "/", "/nonexistent", "/root", "relative/dir", "/srv/data/../.."}).Draw(t, "envValue")
			old, had := os.LookupEnv(k)
			if rapid.Bool().Draw(t, "unset") {
				os.Unsetenv(k)
			} else {
				os.Setenv(k, v)
			}
			defer func() {
				if had {
					os.Setenv(k, old)
				} else {
					os.Unsetenv(k)
				}
			}()
			ev.Label("env:" + k + "_changed")
		}
		if msg := check(base, u); msg != "" {
			t.Fatalf("%s", msg)
		}
		// a result is the caller's to keep: later calls must not change it
		if rapid.IntRange(0, 3).Draw(t, "keepResult") == 0 {
			kept := fsutil.ResolveUrlPath(base, u)
			copyOfKept := strings.Clone(kept)
			for i, n := 0, rapid.IntRange(1, 4).Draw(t, "laterCalls"); i < n; i++ {
				b2, u2 := genBase().Draw(t, "laterBase"), genURL().Draw(t, "laterUrl")
				if msg := check(b2, u2); msg != "" {
					t.Fatalf("%s", msg)
				}
			}
			if kept != copyOfKept {
				t.Fatalf("ResolveUrlPath(%q, %q) returned %q; after later calls with other arguments that same string reads %q", base, u, copyOfKept, kept)
			}
			ev.Label("result_kept_across_later_calls")
		}
		if hasDotDot(u) {
			ev.Label("gen:dotdot")
		}
		if !strings.HasPrefix(base, "/") {
			ev.Label("gen:relative_base")
		}
		ev.Case(nontrivial(u), ev.Hash(base, u), func() string {
			return fmt.Sprintf("base=%q url=%q -> %q", base, u, fsutil.ResolveUrlPath(base, u))
		})
	})
}

func FuzzResolve(f *testing.F) {
	for _, b := range fixedBases {
		for _, u := range []string{"", "/", "..", "/../x", "a/../../..", "\\..\\", "/./../"} {
			f.Add(b, u)
		}
	}
	f.Fuzz(func(t *testing.T, base, u string) {
		if base == "" {
			return
		}
		if msg := check(base, u); msg != "" {
			t.Fatal(msg)
		}
	})
}

// TestConcurrentCallers: ResolveUrlPath is a plain function of its arguments; callers on different goroutines must
// each get the answer for their own pair (run under the race detector).
func TestConcurrentCallers(t *testing.T) {
	rt.Check(t, 30, 2000, func(t *rapid.T) {
		g := rapid.IntRange(2, 8).Draw(t, "goroutines")
		type pair struct{ base, u string }
		work := make([][]pair, g)
		for i := range work {
			n := rapid.IntRange(10, 60).Draw(t, "n")
			for k := 0; k < n; k++ {
				pr := pair{genBase().Draw(t, "base"), genURL().Draw(t, "url")}
				if k%2 == 1 && len(pr.u) > 0 && pr.u[0] == '/' {
					pr.u = pr.u[1:] // plenty of paths without a leading slash
				}
				work[i] = append(work[i], pr)
			}
		}
		msgs := make([]string, g)
		var wg sync.WaitGroup
		for i := range work {
			wg.Add(1)
			go func(i int) {
				defer wg.Done()
				for round := 0; round < 8 && msgs[i] == ""; round++ {
					for _, pr := range work[i] {
						if m := check(pr.base, pr.u); m != "" {
							msgs[i] = m
							break
						}
					}
				}
			}(i)
		}
		wg.Wait()
		for _, m := range msgs {
			if m != "" {
				t.Fatalf("with %d concurrent callers: %s", g, m)
			}
		}
		ev.Label("concurrent_callers")
		ev.Case(true, ev.Hash("conc", fmt.Sprint(work)), func() string { return fmt.Sprintf("%d goroutines resolving %d pairs each, 8 rounds", g, len(work[0])) })
	})
}
