// C13 — Text handler lines parse back unambiguously; values cannot forge fields or lines.
package c13

import (
	"context"
	"fmt"
	"log/slog"
	"runtime"
	"strings"
	"sync"
	"testing"
	"time"
	"unicode"
	"unicode/utf8"

	"github.com/whoisnian/glb/logger"
	"pgregory.net/rapid"

	"verif/harness/internal/ev"
	lm "verif/harness/internal/logmodel"
	"verif/harness/internal/rt"
)

func TestMain(m *testing.M) {
	ev.Rule("cases = (derivation chain, level, addSource, message, attribute tree) logged through the Text handler via the Logger entry points or Handler.Handle with a generated instant; hostile messages, keys, group names and values " +
		"(spaces, '=', quotes, backslashes, control / non-printing characters, Unicode spaces, invalid UTF-8, empty), all value kinds incl. TextMarshaler ok/failing, groups, LogValuers; plus every 1- and 2-byte string and Unicode scalars as message, key and value; " +
		"oracle = an independent tokenizer must consume the single written line as key=value tokens (bare runs free of whitespace/'='/'\"' or Go-quoted strings) and the unquoted tokens must equal time, level, source, msg and each leaf's dotted path and value, in order; " +
		"non-trivial = some key, group name or value needs quoting, or the chain opens a group; distinct by case hash")
	ev.Assume("the textual rendering of composite Go values (maps, structs, nil, Marshalers) is not fixed by the statement: any single token is accepted for them")
	rt.Main(m)
}

var genOpts = lm.GenOpts{MaxDepth: 4, Huge: true, TextKinds: true}

type tcase struct {
	chain     []lm.Step
	decoys    [][]lm.Step // siblings derived from the same parents, never logged through
	level     slog.Level
	addSource bool
	msg       string
	attrs     []lm.Node
	form      int
	direct    bool
	instant   time.Time
	prime     lm.Prime    // a record logged through another handler right before this one
	fail      *lm.Failure // direct only: the destination fails for the first write(s)
}

func (c tcase) render() string {
	msg := c.msg
	if len(msg) > 80 {
		msg = fmt.Sprintf("%s…(%d bytes)", msg[:80], len(msg))
	}
	nd := 0
	for _, d := range c.decoys {
		nd += len(d)
	}
	return fmt.Sprintf("decoySiblings=%d chain=%s level=%s addSource=%v direct=%v form=%d msg=%q attrs=%s", nd, lm.RenderChain(c.chain), lm.LevelNames[c.level], c.addSource, c.direct, c.form, msg, lm.RenderNodes(c.attrs))
}

func needsQuote(s string) bool {
	if s == "" || !utf8.ValidString(s) {
		return true
	}
	for _, r := range s {
		if r == ' ' || r == '=' || r == '"' || unicode.IsSpace(r) || !unicode.IsPrint(r) {
			return true
		}
	}
	return false
}

func nodeNT(n lm.Node) bool {
	if needsQuote(n.Key) && !(n.Kind == lm.KGroup && n.Key == "") {
		return true
	}
	switch n.Kind {
	case lm.KString, lm.KError, lm.KBytes, lm.KAnsi, lm.KTextOK, lm.KTextErr:
		if needsQuote(n.S) {
			return true
		}
	}
	for _, m := range n.Members {
		if nodeNT(m) {
			return true
		}
	}
	return false
}

func (c tcase) nontrivial() bool {
	if needsQuote(c.msg) {
		return true
	}
	for _, s := range c.chain {
		if s.Group != "" {
			return true
		}
		for _, n := range s.With {
			if nodeNT(n) {
				return true
			}
		}
	}
	for _, n := range c.attrs {
		if nodeNT(n) {
			return true
		}
	}
	return false
}

func run(c tcase) string {
	if !c.direct && !lm.FormTakesAttrs(c.form) {
		c.attrs = nil // the printf-style entry points carry no attributes
	}
	sink := &lm.Sink{}
	h := logger.NewTextHandler(sink, logger.NewOptions(logger.LevelDebug, false, c.addSource))
	var file string
	var line int
	var before, after time.Time
	if c.direct {
		dh := lm.DeriveHandlerWithDecoys(h, c.chain, c.decoys)
		pc, f, l := lm.CallerPC()
		file, line = f, l
		c.prime.Run(c.instant, c.addSource)
		r := slog.NewRecord(c.instant, c.level, c.msg, pc)
		r.AddAttrs(lm.Attrs(c.attrs)...)
		sink.Fail = c.fail
		err := dh.Handle(context.Background(), r.Clone())
		if c.fail != nil && sink.FailedCalls > 0 {
			// the destination failed. A handler that reports the error has made no claim about this record: the caller
			// logs it once more through the same handler, and the destination has recovered by then. A handler that
			// reports success has claimed a whole line: everything the destination took is judged.
			if err != nil {
				sink.Reset()
				sink.FailedCalls = c.fail.Times
				if err = dh.Handle(context.Background(), r.Clone()); err != nil {
					return "Handle returned " + err.Error() + " on a destination that has recovered after one failed write"
				}
				ev.Label("destination_failed:error_reported_then_logged_again")
			} else {
				ev.Label("destination_failed:success_reported")
			}
			sink.Writes = [][]byte{sink.Accepted}
		} else if err != nil {
			return "Handle returned " + err.Error()
		}
	} else {
		l := lm.DeriveWithDecoys(logger.New(h), c.chain, c.decoys)
		c.prime.Run(time.Now(), c.addSource)
		before = time.Now()
		file, line = lm.Emit(l, c.form, c.level, c.msg, c.attrs)
		after = time.Now()
	}
	if len(sink.Writes) != 1 {
		return fmt.Sprintf("%d Write calls for one record, want exactly 1", len(sink.Writes))
	}
	p := sink.Writes[0]
	show := func() string {
		out := string(p)
		if len(out) > 600 {
			out = out[:600] + "…"
		}
		return "\n  line: " + out
	}
	body := p
	if len(body) > 0 {
		body = body[:len(body)-1]
	}
	if strings.ContainsAny(string(body), "\n\r") {
		return "payload contains a line break before its end" + show()
	}
	toks, err := lm.Tokenize(p)
	if err != nil {
		return "line does not split into key=value tokens: " + err.Error() + show()
	}
	nfixed := 3
	if c.addSource {
		nfixed = 4
	}
	if len(toks) < nfixed {
		return fmt.Sprintf("only %d tokens", len(toks)) + show()
	}
	if c.direct && c.instant.IsZero() && toks[0].Key != "time" {
		// a record without a time: slog's handler contract lets a handler leave the time out then; the line must still
		// be well formed and carry everything else, in order (a dummy token keeps the positions below)
		toks = append([]lm.Token{{Key: "time"}}, toks...)
	} else if toks[0].Key != "time" {
		return fmt.Sprintf("first token key %q, want time", toks[0].Key) + show()
	}
	ts, perr := time.Parse(time.RFC3339, toks[0].Val)
	if c.direct && c.instant.IsZero() && toks[0].Val == "" {
		ts, perr = c.instant, nil
	}
	if perr != nil {
		return "time token does not parse as RFC3339: " + perr.Error() + show()
	}
	if c.direct {
		if _, got := ts.Zone(); !ts.Equal(c.instant.Truncate(time.Second)) || got != zoneOffset(c.instant) {
			return fmt.Sprintf("time %q is not the record's time %s to the second, in the zone the record carries", toks[0].Val, c.instant.Format(time.RFC3339Nano)) + show()
		}
	} else if ts.Before(before.Truncate(time.Second)) || ts.After(after) {
		return fmt.Sprintf("time %q outside [%s, %s]", toks[0].Val, before.Format(time.RFC3339Nano), after.Format(time.RFC3339Nano)) + show()
	}
	if toks[1].Key != "level" || toks[1].Val != lm.LevelNames[c.level] {
		return fmt.Sprintf("second token %q=%q, want level=%s", toks[1].Key, toks[1].Val, lm.LevelNames[c.level]) + show()
	}
	k := 2
	if c.addSource {
		want := fmt.Sprintf("%s:%d", file, line)
		if toks[2].Key != "source" || toks[2].Val != want {
			return fmt.Sprintf("third token %q=%q, want source=%s", toks[2].Key, toks[2].Val, want) + show()
		}
		k = 3
	}
	wantMsg := c.msg
	if !c.direct {
		wantMsg = lm.FormMessage(c.form, c.msg)
	}
	if toks[k].Key != "msg" || toks[k].Val != wantMsg {
		return fmt.Sprintf("token %q=%q, want msg=%q", toks[k].Key, toks[k].Val, wantMsg) + show()
	}
	if m := lm.MatchTokens(toks, lm.ExpectTextBody(c.chain, c.attrs), k+1); m != "" {
		return m + show()
	}
	return ""
}

func genCase(t *rapid.T) tcase {
	c := tcase{
		chain:     lm.GenChain(genOpts, 5).Draw(t, "chain"),
		level:     rapid.SampledFrom(lm.Levels).Draw(t, "level"),
		addSource: rapid.Bool().Draw(t, "addSource"),
		msg:       lm.HostileString().Draw(t, "msg"),
		attrs:     lm.GenNodes(genOpts, 5).Draw(t, "attrs"),
		form:      rapid.IntRange(0, lm.NumForms-1).Draw(t, "form"),
		direct:    rapid.IntRange(0, 3).Draw(t, "direct") == 0,
	}
	if c.direct {
		c.instant = lm.GenInstant().Draw(t, "instant")
		if rapid.IntRange(0, 9).Draw(t, "zeroTime") == 0 {
			c.instant = time.Time{} // a record that carries no time at all
		}
		if rapid.IntRange(0, 3).Draw(t, "destinationFails") == 0 {
			c.fail = lm.GenFailure().Draw(t, "failure")
		}
	}
	c.prime = lm.GenPrime(genOpts).Draw(t, "prime")
	if rapid.IntRange(0, 24).Draw(t, "deepChain") == 0 {
		c.chain = lm.GenDeepChain(genOpts).Draw(t, "deep") // many open groups
	}
	if len(c.chain) > 0 {
		c.decoys = lm.GenDecoys(genOpts, len(c.chain)).Draw(t, "decoys")
	}
	return c
}

func TestGenerated(t *testing.T) {
	rt.Check(t, 5000, 1200000, func(t *rapid.T) {
		c := genCase(t)
		if msg := run(c); msg != "" {
			t.Fatalf("%s\ncase: %s", msg, c.render())
		}
		ngroups := 0
		for _, s := range c.chain {
			if s.Group != "" {
				ngroups++
			}
		}
		ev.Label(fmt.Sprintf("open_groups:%d", ngroups))
		ev.Case(c.nontrivial(), ev.Hash(c.render()), c.render)
	})
}

func checkStrings(t *testing.T, batch []string, what string) bool {
	var attrs []lm.Node
	for _, s := range batch {
		attrs = append(attrs, lm.Node{Key: s, Kind: lm.KString, S: "v"}, lm.Node{Key: "k", Kind: lm.KString, S: s})
	}
	// also as a group name in front of a key, via WithGroup and via an attribute group
	c := tcase{level: logger.LevelInfo, msg: batch[0], attrs: attrs, form: 2}
	if msg := run(c); msg != "" {
		for _, s := range batch {
			one := tcase{level: logger.LevelInfo, msg: s, attrs: []lm.Node{{Key: s, Kind: lm.KString, S: "v"}, {Key: "k", Kind: lm.KString, S: s}}, form: 2}
			if m := run(one); m != "" {
				t.Errorf("%s %q: %s", what, s, m)
				return false
			}
		}
		t.Errorf("%s batch starting at %q: %s", what, batch[0], msg)
		return false
	}
	for i := 0; i < len(batch); i += 8 {
		s := batch[i]
		g := tcase{level: logger.LevelWarn, msg: s, chain: []lm.Step{{Group: s}}, attrs: []lm.Node{{Key: s, Kind: lm.KGroup, Members: []lm.Node{{Key: "k", Kind: lm.KString, S: s}}}}}
		if s == "" {
			g.chain = nil
		}
		if m := run(g); m != "" {
			t.Errorf("%s %q as message and group name: %s", what, s, m)
			return false
		}
	}
	for _, s := range batch {
		s := s
		ev.Case(needsQuote(s), ev.Hash("str", s), func() string { return fmt.Sprintf("%s %q as message, key and value", what, s) })
	}
	return true
}

func enumerate(t *testing.T, what string, gen func(add func(string) bool)) int {
	si, sn := rt.Shard()
	var batch []string
	n, idx := 0, 0
	ok := true
	flush := func() bool {
		if len(batch) == 0 {
			return true
		}
		r := checkStrings(t, batch, what)
		batch = batch[:0]
		return r
	}
	gen(func(s string) bool {
		idx++
		if idx%sn != si {
			return true
		}
		n++
		batch = append(batch, s)
		if len(batch) == 256 {
			ok = flush()
		}
		return ok
	})
	if ok {
		ok = flush()
	}
	if !ok {
		return -1
	}
	return n
}

// chunkSink is a destination that is not atomic per Write call (a buffered or network writer): it takes the payload
// in small pieces and lets other goroutines run in between. Only the pieces are protected by its own lock.
type chunkSink struct {
	mu  sync.Mutex
	buf []byte
}

func (c *chunkSink) Write(p []byte) (int, error) {
	n := len(p)
	for len(p) > 0 {
		k := min(len(p), 11)
		c.mu.Lock()
		c.buf = append(c.buf, p[:k]...)
		c.mu.Unlock()
		p = p[k:]
		runtime.Gosched()
	}
	return n, nil
}

// TestLinesFromSeveralLoggers: "every record the handler writes is exactly one line that splits unambiguously into key=value tokens"
// as the destination sees it, also when the root logger and loggers derived from it write at the same time into a
// destination that takes each Write in pieces. (That the Write calls themselves never overlap is C02's statement; here
// only the outcome counts: whole lines.)
func TestLinesFromSeveralLoggers(t *testing.T) {
	rt.Check(t, 40, 20000, func(t *rapid.T) {
		sink := &chunkSink{}
		root := logger.New(logger.NewTextHandler(sink, logger.NewOptions(logger.LevelDebug, false, rapid.Bool().Draw(t, "addSource"))))
		g := rapid.IntRange(2, 8).Draw(t, "goroutines")
		per := rapid.IntRange(5, 60).Draw(t, "records")
		loggers := make([]*logger.Logger, g)
		for i := range loggers {
			loggers[i] = root
			if rapid.IntRange(0, 3).Draw(t, "derived") > 0 {
				loggers[i] = lm.Derive(root, lm.GenChain(genOpts, 3).Draw(t, "chain"))
			}
		}
		attrs := lm.GenNodes(genOpts, 3).Draw(t, "attrs")
		var wg sync.WaitGroup
		for i := range loggers {
			wg.Add(1)
			go func(i int) {
				defer wg.Done()
				for k := 0; k < per; k++ {
					lm.Emit(loggers[i], 2, logger.LevelInfo, fmt.Sprintf("id-%d-%d", i, k), attrs)
				}
			}(i)
		}
		wg.Wait()
		out := string(sink.buf)
		if !strings.HasSuffix(out, "\n") {
			t.Fatalf("the output does not end with a newline: ...%q", out[max(0, len(out)-120):])
		}
		lines := strings.Split(strings.TrimSuffix(out, "\n"), "\n")
		seen := map[string]bool{}
		for _, l := range lines {
			toks, err := lm.Tokenize([]byte(l + "\n"))
			if err != nil {
				t.Fatalf("%d goroutines, %d records each: a line of the output does not split into key=value tokens (%v): %q", g, per, err, l[:min(len(l), 400)])
			}
			id := ""
			for _, tk := range toks {
				if tk.Key == "msg" {
					id = tk.Val // the record's own message comes first; an attribute may be keyed "msg" as well
					break
				}
			}
			if !strings.HasPrefix(id, "id-") || seen[id] {
				t.Fatalf("line with msg %q: unknown or repeated record: %q", id, l[:min(len(l), 400)])
			}
			seen[id] = true
		}
		if len(lines) != g*per {
			t.Fatalf("%d lines for %d records", len(lines), g*per)
		}
		ev.Label("concurrent_loggers_into_a_chunking_destination")
		ev.Case(true, ev.Hash("chunk", fmt.Sprint(g, per), lm.RenderNodes(attrs)), func() string {
			return fmt.Sprintf("%d goroutines (root and derived loggers) x %d records into a destination that takes each Write in 11-byte pieces", g, per)
		})
	})
}

func zoneOffset(t time.Time) int { _, off := t.Zone(); return off }

func TestExhaustiveShortStrings(t *testing.T) {
	n := enumerate(t, "string", func(add func(string) bool) {
		for a := 0; a < 256; a++ {
			if !add(string([]byte{byte(a)})) {
				return
			}
		}
		for a := 0; a < 256; a++ {
			for b := 0; b < 256; b++ {
				if !add(string([]byte{byte(a), byte(b)})) {
					return
				}
			}
		}
	})
	if n < 0 {
		return
	}
	_, sn := rt.Shard()
	scope := "every 1-byte and 2-byte string (65 792) as message, key and string value (every 8th also as group name)"
	if sn > 1 {
		scope = "one shard of: " + scope
	}
	ev.Exhaustive(scope)
	ev.LabelN("exhaustive_short_strings", int64(n))
}

func TestScalars(t *testing.T) {
	stride := 1
	if !rt.Thorough() {
		stride = 57
	}
	n := enumerate(t, "scalar", func(add func(string) bool) {
		for r := rune(0); r <= 0x10ffff; r += rune(stride) {
			if r >= 0xd800 && r <= 0xdfff {
				continue
			}
			if !add(string(r)) {
				return
			}
		}
		if stride > 1 {
			for r := rune(0); r < 0x3100; r++ { // all of the low planes where the Unicode spaces live
				if !add(string(r)) {
					return
				}
			}
			for _, r := range []rune{0xd7ff, 0xe000, 0xfeff, 0xfffd, 0xfffe, 0xffff, 0x10000, 0x1ffff, 0xe0001, 0x10fffe, 0x10ffff} {
				if !add(string(r)) {
					return
				}
			}
		}
	})
	if n < 0 {
		return
	}
	if stride == 1 {
		_, sn := rt.Shard()
		scope := "every Unicode scalar value (1 112 064) as message, key and string value"
		if sn > 1 {
			scope = "one shard of: " + scope
		}
		ev.Exhaustive(scope)
	}
	ev.LabelN("scalars_checked", int64(n))
}

func TestRegression(t *testing.T) {
	g := func(key string, members ...lm.Node) lm.Node {
		return lm.Node{Key: key, Kind: lm.KGroup, Members: members}
	}
	s := func(key, v string) lm.Node { return lm.Node{Key: key, Kind: lm.KString, S: v} }
	cases := []tcase{
		{msg: "a b", attrs: []lm.Node{s("k", "v w"), s("k=", "="), s("", ""), s("\"", "\\"), s("a\nb", "c\rd"), s(" ", " "), s("\xff", "\x80x")}},
		{msg: "", chain: []lm.Step{{Group: "g h"}, {With: []lm.Node{s("k", "v")}}, {Group: "i=j"}}, attrs: []lm.Node{s("x", "y"), g("in ner", s("z z", "w")), g("", s("q", ""))}},
		{msg: "level=ERROR msg=forged", attrs: []lm.Node{s("k", "v level=ERROR"), s("time", "now"), {Key: "e", Kind: lm.KError, S: "bad thing\nnext=line"}, {Key: "b", Kind: lm.KBytes, S: "by tes"},
			{Key: "tm", Kind: lm.KTextOK, S: "te xt"}, {Key: "te", Kind: lm.KTextErr, S: "failed = yes"}, {Key: "an", Kind: lm.KAnsi, S: "REQ END"}}},
		{msg: "m", chain: []lm.Step{{Group: "a.b"}, {Group: "."}}, attrs: []lm.Node{s(".", "."), g(".", s("", "x"))}},
		{msg: "m", attrs: []lm.Node{{Key: "f", Kind: lm.KFloat, F: 1e21}, {Key: "d", Kind: lm.KDuration, I: 1500000000}, {Key: "map", Kind: lm.KMap, S: "a b"}, {Key: "nil", Kind: lm.KNil}, {Key: "st", Kind: lm.KStruct, S: "x y"}}},
	}
	for _, base := range cases {
		for _, src := range []bool{false, true} {
			for form := 0; form < lm.NumForms; form++ {
				c := base
				c.addSource, c.form, c.level = src, form, lm.Levels[form%len(lm.Levels)]
				if msg := run(c); msg != "" {
					t.Errorf("%s\ncase: %s", msg, c.render())
				}
				d := c
				d.direct, d.instant = true, time.Date(2023, 8, 16, 0, 35, 15, 208873091, time.FixedZone("", 8*3600))
				if msg := run(d); msg != "" {
					t.Errorf("%s\ncase: %s", msg, d.render())
				}
			}
		}
		ev.Case(true, ev.Hash(base.render()), base.render)
	}
}

func FuzzTextLine(f *testing.F) {
	f.Add("m", "k", "v", uint8(0))
	f.Add("a b", "k=", "\"", uint8(1))
	f.Add("\xff", " ", "\x00", uint8(2))
	f.Add("", "", "", uint8(3))
	f.Add(" ", "a.b", "\\", uint8(4))
	f.Add("​", "　", "\x7f", uint8(5))
	f.Fuzz(func(t *testing.T, msg, key, val string, shape uint8) {
		leaf := lm.Node{Key: key, Kind: lm.KString, S: val}
		c := tcase{level: lm.Levels[int(shape)%5], msg: msg, addSource: shape&0x80 != 0, form: int(shape>>3) % lm.NumForms}
		name := key
		if name == "" {
			name = "g"
		}
		switch shape % 8 {
		case 0:
			c.attrs = []lm.Node{leaf}
		case 1:
			c.attrs = []lm.Node{{Key: key, Kind: lm.KGroup, Members: []lm.Node{leaf}}}
		case 2:
			c.chain = []lm.Step{{With: []lm.Node{leaf}}}
		case 3:
			c.chain = []lm.Step{{Group: name}, {With: []lm.Node{leaf}}}
			c.attrs = []lm.Node{{Key: val, Kind: lm.KError, S: msg}}
		case 4:
			c.attrs = []lm.Node{{Kind: lm.KGroup, Members: []lm.Node{leaf}}, {Key: val, Kind: lm.KBytes, S: key}}
		case 5:
			c.chain = []lm.Step{{Group: name}, {Group: val + "x"}}
			c.attrs = []lm.Node{{Key: key, Kind: lm.KGroup, Valuer: 1, Members: []lm.Node{leaf}}}
		case 6:
			c.attrs = []lm.Node{{Key: key, Kind: lm.KTextOK, S: val}, {Key: val, Kind: lm.KTextErr, S: key}, {Key: msg, Kind: lm.KAnsi, S: val}}
		case 7:
			c.attrs = []lm.Node{{Key: key, Kind: lm.KGroup, Members: []lm.Node{{Key: val, Kind: lm.KGroup, Members: []lm.Node{leaf}}}}}
		}
		if m := run(c); m != "" {
			t.Fatalf("%s\ncase: %s", m, c.render())
		}
	})
}

// TestSameAttrUsedAgain: as in C01 - an attribute value built once and logged again and again; a deferred value inside
// it is resolved anew for every record.
func TestSameAttrUsedAgain(t *testing.T) {
	rt.Check(t, 400, 60000, func(t *rapid.T) {
		ra := lm.GenReusedAttr().Draw(t, "attr")
		sink := &lm.Sink{}
		h := logger.NewTextHandler(sink, logger.NewOptions(logger.LevelDebug, false, rapid.Bool().Draw(t, "addSource")))
		l := logger.New(h)
		uses := rapid.IntRange(2, 5).Draw(t, "uses")
		key := strings.Join(ra.Path, ".")
		var hows []int
		for i := 1; i <= uses; i++ {
			how := rapid.IntRange(0, 3).Draw(t, "how")
			hows = append(hows, how)
			sink.Reset()
			switch how {
			case 0:
				l.Log(context.Background(), logger.LevelInfo, "m", ra.Attr)
			case 1:
				pc, _, _ := lm.CallerPC()
				r := slog.NewRecord(time.Now(), logger.LevelWarn, "m", pc)
				r.AddAttrs(ra.Attr)
				if err := h.Handle(context.Background(), r); err != nil {
					t.Fatalf("Handle returned %v", err)
				}
			case 2:
				l.With(ra.Attr).Info("m")
			case 3:
				l.Error("m", ra.Attr)
			}
			if len(sink.Writes) != 1 {
				t.Fatalf("use #%d: %d Write calls for one record", i, len(sink.Writes))
			}
			toks, err := lm.Tokenize(sink.Writes[0])
			if err != nil {
				t.Fatalf("use #%d: line does not split into tokens: %v: %s", i, err, sink.Writes[0])
			}
			got, n := "", 0
			for _, tk := range toks {
				if tk.Key == key {
					got, n = tk.Val, n+1
				}
			}
			if n != 1 || got != fmt.Sprint(i) {
				t.Fatalf("use #%d of the same attribute (%s; entry points so far %v): %d token(s) keyed %s, value %q, want one with %d - the value of the resolution made for this record\n  line: %s", i, ra.Desc, hows, n, key, got, i, sink.Writes[0])
			}
		}
		ev.Label("same_attribute_value_logged_again")
		ev.Case(true, ev.Hash("reuse", ra.Desc, fmt.Sprint(hows)), func() string {
			return fmt.Sprintf("one attribute value (%s) used %d times through entry points %v", ra.Desc, uses, hows)
		})
	})
}

// TestSmallIntegers: as in C01 - every integer from -12000 to 12000 and the neighbourhood of every power of ten and of
// two, as int64, uint64 and duration attribute.
func TestSmallIntegers(t *testing.T) {
	si, sn := rt.Shard()
	var vals []int64
	for v := int64(-12000); v <= 12000; v++ {
		vals = append(vals, v)
	}
	for p, k := int64(1), 0; k <= 18; p, k = p*10, k+1 {
		for d := int64(-2); d <= 2; d++ {
			vals = append(vals, p+d, -(p + d))
		}
	}
	for k := 0; k <= 62; k++ {
		for d := int64(-2); d <= 2; d++ {
			vals = append(vals, int64(1)<<uint(k)+d, -(int64(1)<<uint(k) + d))
		}
	}
	n := 0
	for start := 0; start < len(vals); start += 256 {
		if (start/256)%sn != si {
			continue
		}
		var attrs []lm.Node
		for i, v := range vals[start:min(start+256, len(vals))] {
			attrs = append(attrs, lm.Node{Key: fmt.Sprintf("i%d", i), Kind: lm.KInt64, I: v}, lm.Node{Key: fmt.Sprintf("d%d", i), Kind: lm.KDuration, I: v})
			if v >= 0 {
				attrs = append(attrs, lm.Node{Key: fmt.Sprintf("u%d", i), Kind: lm.KUint64, U: uint64(v)})
			}
			n++
		}
		c := tcase{level: logger.LevelInfo, msg: "integers", attrs: attrs, form: 2}
		if msg := run(c); msg != "" {
			for _, a := range attrs {
				one := tcase{level: logger.LevelInfo, msg: "integer", attrs: []lm.Node{a}, form: 2}
				if m := run(one); m != "" {
					t.Fatalf("%s\n  attribute: %s", m, a.Render())
				}
			}
			t.Fatalf("%s", msg)
		}
	}
	ev.LabelN("integers_checked_one_by_one", int64(n))
	ev.Exhaustive(fmt.Sprintf("every integer in [-12000, 12000] and within 2 of every power of ten and of two, as int64 / uint64 / duration attribute (%d values in this shard)", n))
}
