// C18 — CopyFile and MoveFile never lose file content.
package c18

import (
	"bytes"
	"errors"
	"fmt"
	"os"
	"path/filepath"
	"strings"
	"sync"
	"syscall"
	"testing"

	"github.com/whoisnian/glb/util/osutil"
	"pgregory.net/rapid"

	"verif/harness/internal/ev"
	"verif/harness/internal/rt"
)

var otherFS string // a directory on another file system (rename from the temp dir fails with EXDEV), "" if none

func TestMain(m *testing.M) {
	ev.Rule("cases = file-system scenarios in a fresh directory: operation (CopyFile / MoveFile) x size (0, 1, 4095, 4096, 4097, 64 KiB, 1 MiB+3, 2 MiB, 2 MiB+1, 4 MiB+17, thorough also 5 MiB) x source (regular file, through a symlink, missing) x destination " +
		"(missing, existing shorter / longer / same length, the same path, a ./-spelling of it, a symlink to the source, a hard link to the source, a directory, missing parent, parent that is a file, and for MoveFile a path on another file system incl. an existing file and a symlink pointing back to the source); " +
		"oracle = snapshot of the source bytes before the call: nil result => destination bytes = snapshot (CopyFile: source too, returned count = length; MoveFile: source path gone unless it is the destination), error => source still there with the snapshot bytes; never a panic; " +
		"non-trivial = aliasing, pre-existing destination, a failing step or a cross-device move; distinct by scenario hash")
	ev.Assume("whether an aliasing copy returns nil or an error is not fixed by the statement: both are accepted as long as no content is lost")
	ev.Assume("mid-copy I/O errors (ENOSPC, EIO) are not injected: they are not in the property's fault list")
	otherFS = findOtherFS()
	if otherFS == "" {
		ev.Assume("no second file system found (rename never fails with EXDEV): the cross-device class was NOT explored in this run")
	} else {
		ev.Note("cross-device moves use " + otherFS)
	}
	code := m.Run()
	ev.Flush()
	os.Exit(code)
}

func findOtherFS() string {
	base, err := os.MkdirTemp("", "c18-probe-")
	if err != nil {
		return ""
	}
	defer os.RemoveAll(base)
	probe := filepath.Join(base, "probe")
	if os.WriteFile(probe, []byte("x"), 0o644) != nil {
		return ""
	}
	for _, cand := range []string{"/dev/shm", "/run/shm", "/run/user/0", "/var/tmp", "/mnt"} {
		d, err := os.MkdirTemp(cand, "c18-")
		if err != nil {
			continue
		}
		err = os.Rename(probe, filepath.Join(d, "probe"))
		if errors.Is(err, syscall.EXDEV) {
			os.RemoveAll(d)
			return cand
		}
		if err == nil {
			os.Rename(filepath.Join(d, "probe"), probe)
		}
		os.RemoveAll(d)
	}
	return ""
}

// ensureDevFull reports whether /dev/full is the character device 1:7. A change under test that removes or replaces
// its destination before writing (run with root rights, as in this sandbox) turns the node into a regular file, and
// every later run would silently lose the "every write fails" class: the node is put back when that is possible.
func ensureDevFull() bool {
	fi, err := os.Stat("/dev/full")
	if err == nil && fi.Mode()&os.ModeCharDevice != 0 {
		return true
	}
	if os.Geteuid() != 0 {
		return false
	}
	os.Remove("/dev/full")
	if err := syscall.Mknod("/dev/full", syscall.S_IFCHR|0o666, 1<<8|7); err != nil {
		return false
	}
	os.Chmod("/dev/full", 0o666)
	fi, err = os.Stat("/dev/full")
	return err == nil && fi.Mode()&os.ModeCharDevice != 0
}

const (
	srcRegular = iota
	srcViaSymlink
	srcMissing
	srcDirLinkDotDot // spelled <symlink to a directory elsewhere>/../source.bin: the kernel resolves ".." after following the link
	srcSymlinkChain  // a symlink to a symlink (to a symlink) to the file, some hops with relative targets
)

const (
	dstMissing = iota
	dstShorter
	dstLonger
	dstSameLen
	dstSamePath
	dstDotSlash
	dstSymlinkToSrc
	dstHardlinkToSrc
	dstDirectory
	dstParentMissing
	dstParentIsFile
	dstOtherFS
	dstOtherFSExisting
	dstOtherFSSymlinkBack
	dstDevFull       // /dev/full: can be opened for writing, every write fails with ENOSPC (a full disk)
	dstDirLinkDotDot // spelled <symlink to a directory elsewhere>/../dest.bin; another dest.bin sits where a lexical clean-up of the spelling points
	dstRealSource    // the file the source names in the end, spelled plainly (differs from same-path when the source is a link)
	dstChainToSrc    // a symlink to a symlink to the source file
	numDst
)

var srcNames = []string{"regular", "via-symlink", "missing", "via-symlinked-directory-dotdot", "via-chain-of-symlinks"}
var dstNames = []string{"missing", "existing-shorter", "existing-longer", "existing-same-length", "same-path", "dot-slash-spelling", "symlink-to-source", "hardlink-to-source", "directory", "parent-missing", "parent-is-file",
	"other-fs", "other-fs-existing", "other-fs-symlink-back-to-source", "device-where-every-write-fails", "via-symlinked-directory-dotdot", "the-file-the-source-resolves-to", "chain-of-symlinks-to-source"}

type scen struct {
	move    bool
	size    int
	src     int
	dst     int
	salt    uint64
	pattern int // content shape: 0 pseudo-random, 1 all zero bytes, 2 zero tail, 3 zero head, 4 alternating zero / data blocks, 5 one repeated byte
	// sibling > 0: the source is named like a temporary or backup sibling of the destination (dest.bin.tmp, dest.bin~,
	// ...), as in CopyFile("report.csv.tmp", "report.csv"); only for a regular source and a destination in the same directory
	sibling int
}

// names that tools put next to a file; files with these names next to the destination belong to somebody else
var siblingSuffixes = []string{"", ".tmp", "~", ".bak", ".part", ".new", ".old", ".swp", ".temp", ".copy", ".1"}

var patternNames = []string{"random", "all-zero", "zero-tail", "zero-head", "alternating-zero-blocks", "repeated-byte"}

func (s scen) String() string {
	op := "CopyFile"
	if s.move {
		op = "MoveFile"
	}
	sib := ""
	if s.sibling > 0 {
		sib = fmt.Sprintf(" (source named destination+%q)", siblingSuffixes[s.sibling%len(siblingSuffixes)])
	}
	return fmt.Sprintf("%s size=%d content=%s source=%s%s destination=%s", op, s.size, patternNames[s.pattern%len(patternNames)], srcNames[s.src], sib, dstNames[s.dst])
}

func content(n int, salt uint64) []byte {
	b := make([]byte, n)
	x := salt*2862933555777941757 + 3037000493
	for i := range b {
		x ^= x << 13
		x ^= x >> 7
		x ^= x << 17
		b[i] = byte(x)
	}
	return b
}

// shaped gives the source content a shape that copy optimisations care about: runs of zero bytes (sparse files),
// block-aligned zero tails and heads, constant bytes.
func shaped(n int, salt uint64, pattern int) []byte {
	b := content(n, salt)
	zero := func(from, to int) {
		for i := max(from, 0); i < min(to, n); i++ {
			b[i] = 0
		}
	}
	block := []int{4096, 65536, 32768, 1 << 20}[salt%4]
	switch pattern % len(patternNames) {
	case 1:
		zero(0, n)
	case 2:
		zero(n-block, n)
		if salt%3 == 0 {
			zero(n/2, n)
		}
	case 3:
		zero(0, block)
	case 4:
		for off := 0; off < n; off += 2 * block {
			zero(off, off+block)
		}
	case 5:
		for i := range b {
			b[i] = byte(salt)
		}
	}
	return b
}

func (s scen) nontrivial() bool {
	return s.dst != dstMissing || s.src == srcMissing
}

// run builds the scenario, performs the call and judges the outcome. "" = fine; skipped = class not available.
func run(s scen) (msg string, skipped bool) {
	needsOtherFS := s.dst == dstOtherFS || s.dst == dstOtherFSExisting || s.dst == dstOtherFSSymlinkBack
	if needsOtherFS && otherFS == "" {
		return "", true
	}
	if s.dst == dstDevFull {
		if !ensureDevFull() {
			return "", true
		}
		defer ensureDevFull()
	}
	dir, err := os.MkdirTemp("", "c18-")
	if err != nil {
		return "harness: " + err.Error(), true
	}
	defer os.RemoveAll(dir)
	var odir string
	if needsOtherFS {
		odir, err = os.MkdirTemp(otherFS, "c18-")
		if err != nil {
			return "", true
		}
		defer os.RemoveAll(odir)
	}
	must := func(err error) {
		if err != nil {
			panic("harness setup: " + err.Error())
		}
	}
	data := shaped(s.size, s.salt, s.pattern)
	realSrc := filepath.Join(dir, "source.bin")
	srcPath := realSrc
	plainDst := s.dst == dstMissing || s.dst == dstShorter || s.dst == dstLonger || s.dst == dstSameLen
	if s.src == srcRegular && plainDst && s.sibling%len(siblingSuffixes) > 0 {
		realSrc = filepath.Join(dir, "dest.bin"+siblingSuffixes[s.sibling%len(siblingSuffixes)])
		srcPath = realSrc
	}
	switch s.src {
	case srcRegular:
		must(os.WriteFile(realSrc, data, 0o644))
	case srcViaSymlink:
		must(os.WriteFile(realSrc, data, 0o644))
		srcPath = filepath.Join(dir, "source.link")
		must(os.Symlink(realSrc, srcPath))
	case srcMissing:
		// nothing
	case srcDirLinkDotDot:
		// the file lives in dir/elsewhere; dir/jump -> dir/elsewhere/deep, so dir/jump/../source.bin names it. A decoy
		// with the same name sits in dir itself, where a lexical clean-up of the spelling would look.
		must(os.MkdirAll(filepath.Join(dir, "elsewhere", "deep"), 0o755))
		must(os.Symlink(filepath.Join(dir, "elsewhere", "deep"), filepath.Join(dir, "jump")))
		realSrc = filepath.Join(dir, "elsewhere", "source.bin")
		must(os.WriteFile(realSrc, data, 0o644))
		must(os.WriteFile(filepath.Join(dir, "source.bin"), []byte("decoy source: not the file that was named"), 0o644))
		srcPath = dir + "/jump/../source.bin"
	case srcSymlinkChain:
		// source.link -> hop1.link [-> hop2.link] -> source.bin; whoever resolves only one hop sees another link
		must(os.WriteFile(realSrc, data, 0o644))
		hops := 2 + int(s.salt%2)
		target := realSrc
		if s.salt%3 == 0 {
			target = "source.bin" // relative to the directory of the link
		}
		// (the hops stay where they are and may name their target relatively; the link that is named in the call holds
		// an absolute target, as for "via-symlink": a rename does not rewrite a relative one)
		for h := hops - 1; h >= 1; h-- {
			name := fmt.Sprintf("hop%d.link", h)
			must(os.Symlink(target, filepath.Join(dir, name)))
			target = filepath.Join(dir, name)
			if h > 1 && (s.salt>>uint(h))%2 == 0 {
				target = name
			}
		}
		srcPath = filepath.Join(dir, "source.link")
		must(os.Symlink(target, srcPath))
	}
	other := content(s.size, s.salt+1)
	dstPath := filepath.Join(dir, "dest.bin")
	bystander, bystanderData := "", []byte("bystander: a file nobody named")
	aliasing := false
	switch s.dst {
	case dstMissing:
	case dstShorter:
		must(os.WriteFile(dstPath, other[:len(other)/2], 0o644))
	case dstLonger:
		must(os.WriteFile(dstPath, append(append([]byte{}, other...), "tail-that-must-disappear"...), 0o644))
	case dstSameLen:
		must(os.WriteFile(dstPath, other, 0o644))
	case dstSamePath:
		dstPath = srcPath
		aliasing = true
	case dstDotSlash:
		dstPath = filepath.Dir(realSrc) + "/./sub/../" + filepath.Base(realSrc)
		must(os.Mkdir(filepath.Join(filepath.Dir(realSrc), "sub"), 0o755))
		aliasing = true
	case dstSymlinkToSrc:
		dstPath = filepath.Join(dir, "dest.link")
		must(os.Symlink(realSrc, dstPath))
		aliasing = true
	case dstHardlinkToSrc:
		if s.src == srcMissing {
			must(os.WriteFile(dstPath, other, 0o644))
		} else {
			must(os.Link(realSrc, dstPath))
			aliasing = true
		}
	case dstDirectory:
		must(os.Mkdir(dstPath, 0o755))
		must(os.WriteFile(filepath.Join(dstPath, "inner"), []byte("inner"), 0o644))
	case dstParentMissing:
		dstPath = filepath.Join(dir, "no-such-dir", "dest.bin")
	case dstParentIsFile:
		must(os.WriteFile(filepath.Join(dir, "afile"), []byte("x"), 0o644))
		dstPath = filepath.Join(dir, "afile", "dest.bin")
	case dstOtherFS:
		dstPath = filepath.Join(odir, "dest.bin")
	case dstOtherFSExisting:
		dstPath = filepath.Join(odir, "dest.bin")
		must(os.WriteFile(dstPath, append(append([]byte{}, other...), "tail"...), 0o644))
	case dstOtherFSSymlinkBack:
		dstPath = filepath.Join(odir, "dest.link")
		must(os.Symlink(realSrc, dstPath))
		aliasing = true
	case dstDevFull:
		dstPath = "/dev/full"
	case dstDirLinkDotDot:
		must(os.MkdirAll(filepath.Join(dir, "elsewhere2", "deep"), 0o755))
		must(os.Symlink(filepath.Join(dir, "elsewhere2", "deep"), filepath.Join(dir, "jump2")))
		bystander = filepath.Join(dir, "dest.bin")
		must(os.WriteFile(bystander, bystanderData, 0o644))
		dstPath = dir + "/jump2/../dest.bin" // = dir/elsewhere2/dest.bin
	case dstRealSource:
		dstPath = realSrc
		aliasing = true
	case dstChainToSrc:
		mid := filepath.Join(dir, "dest.mid.link")
		must(os.Symlink(realSrc, mid))
		dstPath = filepath.Join(dir, "dest.link")
		if s.salt%2 == 0 {
			must(os.Symlink("dest.mid.link", dstPath))
		} else {
			must(os.Symlink(mid, dstPath))
		}
		aliasing = true
	}
	if s.src == srcMissing {
		aliasing = false
	}
	// files next to the destination that belong to somebody else: whatever names the implementation likes to use for
	// its own temporary files, these must be left alone
	siblings := map[string][]byte{}
	if plainDst {
		for _, suf := range siblingSuffixes[1:] {
			p := dstPath + suf
			if p == realSrc || p == srcPath {
				continue
			}
			siblings[p] = []byte("somebody else's file " + suf)
			must(os.WriteFile(p, siblings[p], 0o644))
		}
	}
	// ---- the call ----
	var n int64
	var callErr error
	var panicked any
	func() {
		defer func() { panicked = recover() }()
		if s.move {
			callErr = osutil.MoveFile(srcPath, dstPath)
		} else {
			n, callErr = osutil.CopyFile(srcPath, dstPath)
		}
	}()
	if panicked != nil {
		return fmt.Sprintf("panicked: %v", panicked), false
	}
	for p, want := range siblings {
		if got, err := os.ReadFile(p); err != nil || !bytes.Equal(got, want) {
			return fmt.Sprintf("a file next to the destination that was not named in the call (%s) was changed or removed (err=%v)", filepath.Base(p), err), false
		}
	}
	if bystander != "" {
		if got, err := os.ReadFile(bystander); err != nil || !bytes.Equal(got, bystanderData) {
			return fmt.Sprintf("a file that was not named in the call (%s, where a lexical clean-up of the destination's spelling points) was changed or removed (err=%v, %d bytes now)", bystander, err, len(got)), false
		}
	}
	readSrc := func() ([]byte, error) { return os.ReadFile(srcPath) }
	if s.src == srcMissing {
		if callErr == nil {
			return "returned nil although the source does not exist", false
		}
		return "", false
	}
	if callErr != nil {
		got, err := readSrc()
		if err != nil {
			return fmt.Sprintf("returned %v and the source is gone or unreadable: %v", callErr, err), false
		}
		if !bytes.Equal(got, data) {
			return fmt.Sprintf("returned %v and the source now holds %d bytes that differ from the %d bytes it held before", callErr, len(got), len(data)), false
		}
		return "", false
	}
	// success
	if s.dst == dstDevFull {
		if s.size == 0 {
			return "", false // nothing had to be written
		}
		return fmt.Sprintf("returned nil although not a single byte of the %d can have reached the destination (every write to it fails)", s.size), false
	}
	gotDst, err := os.ReadFile(dstPath)
	if err != nil {
		return fmt.Sprintf("returned nil but the destination cannot be read: %v", err), false
	}
	if !bytes.Equal(gotDst, data) {
		return fmt.Sprintf("returned nil but the destination holds %d bytes, not the %d bytes the source held when the call began (first difference at %d)", len(gotDst), len(data), firstDiff(gotDst, data)), false
	}
	if !s.move {
		if n != int64(len(data)) {
			return fmt.Sprintf("CopyFile returned n=%d for a source of %d bytes", n, len(data)), false
		}
		got, err := readSrc()
		if err != nil || !bytes.Equal(got, data) {
			return fmt.Sprintf("CopyFile returned nil but the source no longer holds its %d bytes (now %d bytes, err=%v)", len(data), len(got), err), false
		}
		return "", false
	}
	// MoveFile success: the source path is gone unless it is the destination itself
	if _, err := os.Lstat(srcPath); err == nil && !aliasing {
		return "MoveFile returned nil but the source path still exists", false
	}
	return "", false
}

func firstDiff(a, b []byte) int {
	for i := 0; i < len(a) && i < len(b); i++ {
		if a[i] != b[i] {
			return i
		}
	}
	if len(a) < len(b) {
		return len(a)
	}
	return len(b)
}

var sizesQuick = []int{0, 1, 4095, 4096, 4097, 65536, 3 * 65536, 1<<20 + 3, 1 << 20, 1 << 21, 1<<21 + 1, 1<<22 + 17} // a size may select another way of copying

// TestAllCombinations enumerates operation x source x destination for a few sizes.
func TestAllCombinations(t *testing.T) {
	si, sn := rt.Shard()
	sizes := []int{0, 1, 4097, 2 * 65536, 1 << 21}
	if rt.Thorough() {
		sizes = append(sizesQuick, 5<<20)
	}
	idx, n, nskip := 0, 0, 0
	for _, move := range []bool{false, true} {
		for src := 0; src < len(srcNames); src++ {
			for dst := 0; dst < numDst; dst++ {
				if !move && dst >= dstOtherFS && dst != dstOtherFS {
					// CopyFile across file systems is an ordinary copy: one representative is enough
				}
				for _, size := range sizes {
					idx++
					if idx%sn != si {
						continue
					}
					s := scen{move: move, size: size, src: src, dst: dst, salt: uint64(idx), pattern: idx % len(patternNames)}
					msg, skipped := run(s)
					if skipped {
						nskip++
						continue
					}
					if msg != "" {
						t.Errorf("%s: %s", s, msg)
					}
					n++
					ev.Label("dst:" + dstNames[dst])
					ev.Case(s.nontrivial(), ev.Hash(s.String()), s.String)
				}
			}
		}
	}
	scope := fmt.Sprintf("every combination of {CopyFile, MoveFile} x %d source kinds x %d destination kinds x sizes %v (%d scenarios, %d skipped for lack of a second file system)", len(srcNames), numDst, sizes, n, nskip)
	if sn > 1 {
		scope = "one shard of: " + scope
	}
	ev.Exhaustive(scope)
}

func TestGenerated(t *testing.T) {
	sizes := sizesQuick
	if rt.Thorough() {
		sizes = append(append([]int{}, sizesQuick...), 5<<20, 4096*3, 8191, 8193)
	}
	rt.Check(t, 300, 150000, func(t *rapid.T) {
		s := scen{
			move:    rapid.Bool().Draw(t, "move"),
			src:     rapid.SampledFrom([]int{srcRegular, srcRegular, srcRegular, srcViaSymlink, srcMissing, srcDirLinkDotDot, srcSymlinkChain}).Draw(t, "source"),
			dst:     rapid.IntRange(0, numDst-1).Draw(t, "destination"),
			sibling: rapid.SampledFrom([]int{0, 0, 0, 1, 2, 3, 4, 5, 6, 7, 8, 9, 10}).Draw(t, "sourceNamedLikeASiblingOfTheDestination"),
			salt:    rapid.Uint64().Draw(t, "salt"),
		}
		s.pattern = rapid.SampledFrom([]int{0, 0, 0, 1, 2, 2, 3, 4, 5}).Draw(t, "contentPattern")
		if rapid.IntRange(0, 3).Draw(t, "arbitrarySize") == 0 {
			s.size = rapid.IntRange(0, 200000).Draw(t, "size")
		} else {
			s.size = rapid.SampledFrom(sizes).Draw(t, "sizeClass")
		}
		msg, skipped := run(s)
		if skipped {
			if s.dst == dstDevFull {
				ev.Label("skipped:/dev/full_is_not_the_device_and_cannot_be_put_back")
			} else {
				ev.Label("skipped:no_second_file_system")
			}
			return
		}
		if msg != "" {
			t.Fatalf("%s: %s", s, msg)
		}
		ev.Label("dst:" + dstNames[s.dst])
		ev.Label("content:" + patternNames[s.pattern%len(patternNames)])
		ev.Case(s.nontrivial(), ev.Hash(s.String(), fmt.Sprint(s.salt)), s.String)
	})
}

// TestConcurrentCalls: several goroutines copy (or move across file systems) files of their own at the same time.
// Calls on unrelated files have nothing to do with each other: every one of them gives its own guarantee.
func TestConcurrentCalls(t *testing.T) {
	rt.Check(t, 6, 400, func(t *rapid.T) {
		g := rapid.IntRange(2, 8).Draw(t, "goroutines")
		size := rapid.SampledFrom([]int{1, 4097, 300 << 10, 1<<20 + 3, 3 << 20}).Draw(t, "size")
		move := rapid.Bool().Draw(t, "move") && otherFS != ""
		dir, err := os.MkdirTemp("", "c18c-")
		if err != nil {
			t.Fatalf("harness: %v", err)
		}
		defer os.RemoveAll(dir)
		odir := dir
		if move {
			if odir, err = os.MkdirTemp(otherFS, "c18c-"); err != nil {
				t.Fatalf("harness: %v", err)
			}
			defer os.RemoveAll(odir)
		}
		datas := make([][]byte, g)
		for i := range datas {
			datas[i] = content(size+i, uint64(1000+i))
			if err := os.WriteFile(filepath.Join(dir, fmt.Sprintf("src%d.bin", i)), datas[i], 0o644); err != nil {
				t.Fatalf("harness: %v", err)
			}
		}
		errs := make([]error, g)
		var wg sync.WaitGroup
		start := make(chan struct{})
		for i := 0; i < g; i++ {
			wg.Add(1)
			go func(i int) {
				defer wg.Done()
				<-start
				src, dst := filepath.Join(dir, fmt.Sprintf("src%d.bin", i)), filepath.Join(odir, fmt.Sprintf("dst%d.bin", i))
				if move {
					errs[i] = osutil.MoveFile(src, dst)
				} else {
					_, errs[i] = osutil.CopyFile(src, dst)
				}
			}(i)
		}
		close(start)
		wg.Wait()
		op := map[bool]string{false: "CopyFile", true: "MoveFile across file systems"}[move]
		for i := 0; i < g; i++ {
			if errs[i] != nil {
				t.Fatalf("%d concurrent %s calls on unrelated files of %d bytes: call %d returned %v", g, op, size, i, errs[i])
			}
			got, err := os.ReadFile(filepath.Join(odir, fmt.Sprintf("dst%d.bin", i)))
			if err != nil || !bytes.Equal(got, datas[i]) {
				t.Fatalf("%d concurrent %s calls on unrelated files: call %d returned nil but its destination holds %d bytes that differ from the %d bytes of its source (first difference at %d, err=%v)", g, op, i, len(got), len(datas[i]), firstDiff(got, datas[i]), err)
			}
			if !move {
				if got, err := os.ReadFile(filepath.Join(dir, fmt.Sprintf("src%d.bin", i))); err != nil || !bytes.Equal(got, datas[i]) {
					t.Fatalf("concurrent CopyFile calls: source %d changed (err=%v)", i, err)
				}
			}
		}
		ev.Label("concurrent_calls:" + op)
		ev.Case(true, ev.Hash("conc", fmt.Sprint(g, size, move)), func() string {
			return fmt.Sprintf("%d concurrent %s calls on unrelated files of about %d bytes", g, op, size)
		})
	})
}

// TestHistories: the calls of one process are not strangers to each other - the same pair of paths is copied again
// after the destination was replaced by a link to the source, a file is moved back and forth, a name that was a file
// becomes a link and a file again. A handful of names in one directory (and one on the other file system, when there
// is one), set-up steps done by the harness itself (write, hard link, symbolic link with an absolute target, remove)
// and CopyFile / MoveFile calls between any two of the names, spelled the same way every time. Every call is judged
// on the contents read just before it: nil => the destination reads as the source read (CopyFile: and so does the
// source, and n is its length), an error => the source reads as before; and a regular file that was not named in the
// call and is not another name of the destination's file reads as before (round twenty-two, C18-agent22: a same-file
// guard that remembers what it found for a pair of paths the first time).
func TestHistories(t *testing.T) {
	rt.Check(t, 150, 40000, func(t *rapid.T) {
		dir, err := os.MkdirTemp("", "c18h-")
		if err != nil {
			t.Skip("no temporary directory")
		}
		defer os.RemoveAll(dir)
		names := []string{filepath.Join(dir, "a.bin"), filepath.Join(dir, "b.bin"), filepath.Join(dir, "c.bin"), filepath.Join(dir, "d.bin")}
		local := len(names)
		if otherFS != "" {
			if odir, err := os.MkdirTemp(otherFS, "c18h-"); err == nil {
				defer os.RemoveAll(odir)
				names = append(names, filepath.Join(odir, "e.bin"))
			}
		}
		short := func(p string) string { return filepath.Base(p) }
		var hist []string
		salt := rapid.Uint64().Draw(t, "salt")
		lastX, lastY := 0, 1
		calls, repeats, relinked := 0, 0, false
		steps := rapid.IntRange(3, 14).Draw(t, "steps")
		// two files to begin with
		os.WriteFile(names[0], content(3000, salt), 0o644)
		os.WriteFile(names[1], content(1200, salt+1), 0o644)
		hist = append(hist, "a.bin and b.bin written")
		pair := func(label string, limit int) (int, int) {
			if rapid.Bool().Draw(t, label+"SamePairAsLastCall") {
				if rapid.IntRange(0, 3).Draw(t, label+"Reversed") == 0 {
					return lastY, lastX
				}
				return lastX, lastY
			}
			return rapid.IntRange(0, limit-1).Draw(t, label+"X"), rapid.IntRange(0, limit-1).Draw(t, label+"Y")
		}
		for i := 0; i < steps; i++ {
			salt++
			switch rapid.SampledFrom([]string{"copy", "copy", "copy", "move", "move", "write", "link", "link", "symlink", "symlink", "remove"}).Draw(t, "step") {
			case "write":
				p := names[rapid.IntRange(0, len(names)-1).Draw(t, "name")]
				n := rapid.SampledFrom([]int{0, 1, 100, 5000, 70000}).Draw(t, "size")
				os.Remove(p)
				if err := os.WriteFile(p, content(n, salt), 0o644); err == nil {
					hist = append(hist, fmt.Sprintf("write %s (%d bytes)", short(p), n))
				}
			case "link":
				x, y := pair("link", local)
				if fi, err := os.Lstat(names[x]); x == y || err != nil || !fi.Mode().IsRegular() {
					continue
				}
				os.Remove(names[y])
				if err := os.Link(names[x], names[y]); err == nil {
					hist = append(hist, fmt.Sprintf("%s replaced by a hard link to %s", short(names[y]), short(names[x])))
					relinked = true
				}
			case "symlink":
				x, y := pair("symlink", len(names))
				if x == y {
					continue
				}
				os.Remove(names[y])
				if err := os.Symlink(names[x], names[y]); err == nil {
					hist = append(hist, fmt.Sprintf("%s replaced by a symbolic link to %s", short(names[y]), short(names[x])))
					relinked = true
				}
			case "remove":
				p := names[rapid.IntRange(0, len(names)-1).Draw(t, "name")]
				if os.Remove(p) == nil {
					hist = append(hist, "remove "+short(p))
				}
			case "copy", "move":
				x, y := pair("call", len(names))
				if x == lastX && y == lastY && calls > 0 {
					repeats++
				}
				lastX, lastY = x, y
				move := false
				if len(hist) > 0 && rapid.IntRange(0, 2).Draw(t, "moveInstead") == 0 {
					move = true
				}
				// what every name reads as, and which file it is, just before the call
				pre := make([][]byte, len(names))
				preOK := make([]bool, len(names))
				preInfo := make([]os.FileInfo, len(names))
				regular := make([]bool, len(names))
				for k, p := range names {
					if b, err := os.ReadFile(p); err == nil {
						pre[k], preOK[k] = b, true
					}
					preInfo[k], _ = os.Stat(p)
					if fi, err := os.Lstat(p); err == nil && fi.Mode().IsRegular() {
						regular[k] = true
					}
				}
				op := "CopyFile"
				if move {
					op = "MoveFile"
				}
				what := fmt.Sprintf("%s(%s, %s)", op, short(names[x]), short(names[y]))
				var n int64
				var callErr error
				var panicked any
				func() {
					defer func() { panicked = recover() }()
					if move {
						callErr = osutil.MoveFile(names[x], names[y])
					} else {
						n, callErr = osutil.CopyFile(names[x], names[y])
					}
				}()
				calls++
				hist = append(hist, fmt.Sprintf("%s = %v", what, callErr))
				fail := func(format string, args ...any) {
					t.Fatalf("history:\n  %s\n%s: %s", strings.Join(hist, "\n  "), what, fmt.Sprintf(format, args...))
				}
				if panicked != nil {
					fail("panicked: %v", panicked)
				}
				for k, p := range names {
					if k == x || k == y || !regular[k] || !preOK[k] {
						continue
					}
					if preInfo[y] != nil && preInfo[k] != nil && os.SameFile(preInfo[y], preInfo[k]) {
						continue // another name of the file the destination named: overwritten with it, as documented
					}
					if got, err := os.ReadFile(p); err != nil || !bytes.Equal(got, pre[k]) {
						fail("%s, a regular file that was not named in the call and is not the destination's file under another name, read %d bytes before and reads %d now (err=%v)", short(p), len(pre[k]), len(got), err)
					}
				}
				if !preOK[x] {
					continue // the source could not be read: whatever the call says, there was nothing to lose
				}
				if callErr != nil {
					if got, err := os.ReadFile(names[x]); err != nil || !bytes.Equal(got, pre[x]) {
						fail("returned an error and the source, which read %d bytes before, reads %d now (err=%v)", len(pre[x]), len(got), err)
					}
					continue
				}
				got, err := os.ReadFile(names[y])
				if err != nil || !bytes.Equal(got, pre[x]) {
					fail("returned nil but the destination reads %d bytes (err=%v), not the %d bytes the source read when the call began", len(got), err, len(pre[x]))
				}
				if !move {
					if n != int64(len(pre[x])) {
						fail("returned n=%d for a source of %d bytes", n, len(pre[x]))
					}
					if got, err := os.ReadFile(names[x]); err != nil || !bytes.Equal(got, pre[x]) {
						fail("returned nil but the source, which read %d bytes before, reads %d now (err=%v)", len(pre[x]), len(got), err)
					}
				}
			}
		}
		if calls == 0 {
			return
		}
		if repeats > 0 {
			ev.Label("history:same_pair_of_paths_called_again")
		}
		if relinked {
			ev.Label("history:a_name_replaced_by_a_link_between_calls")
		}
		ev.LabelN("history:calls", int64(calls))
		ev.Case(repeats > 0 || relinked, ev.Hash(strings.Join(hist, ";")), func() string { return strings.Join(hist, "; ") })
	})
}

// TestLinkThroughDestination: defect 14 (section 4) as a plain regression, without the library: the source is a
// symbolic link that reaches the file through the destination, which is a link itself (b -> c -> a, MoveFile(b, c)),
// with absolute and relative targets, two and three hops, for both operations.
func TestLinkThroughDestination(t *testing.T) {
	for _, move := range []bool{true, false} {
		for _, relative := range []bool{false, true} {
			for _, extraHop := range []bool{false, true} {
				dir, err := os.MkdirTemp("", "c18l-")
				if err != nil {
					t.Skip("no temporary directory")
				}
				data := content(4321, 77)
				a, b, c, m := filepath.Join(dir, "a.bin"), filepath.Join(dir, "b.link"), filepath.Join(dir, "c.link"), filepath.Join(dir, "m.link")
				os.WriteFile(a, data, 0o644)
				target := func(p string) string {
					if relative {
						return filepath.Base(p)
					}
					return p
				}
				os.Symlink(target(a), c)
				if extraHop {
					os.Symlink(target(c), m)
					os.Symlink(target(m), b)
				} else {
					os.Symlink(target(c), b)
				}
				var callErr error
				name := "CopyFile"
				if move {
					name = "MoveFile"
					callErr = osutil.MoveFile(b, c)
				} else {
					_, callErr = osutil.CopyFile(b, c)
				}
				what := fmt.Sprintf("%s(b.link, c.link) with b.link -> %sc.link -> a.bin (relative targets: %v)", name, map[bool]string{true: "m.link -> ", false: ""}[extraHop], relative)
				if callErr != nil {
					if got, err := os.ReadFile(b); err != nil || !bytes.Equal(got, data) {
						t.Errorf("%s returned %v and the source reads %d bytes now (err=%v), it read %d before", what, callErr, len(got), err, len(data))
					}
				} else if got, err := os.ReadFile(c); err != nil || !bytes.Equal(got, data) {
					t.Errorf("%s returned nil but the destination reads %d bytes (err=%v), not the %d bytes the source read", what, len(got), err, len(data))
				}
				if got, err := os.ReadFile(a); err != nil || !bytes.Equal(got, data) {
					t.Errorf("%s: the file itself reads %d bytes now (err=%v)", what, len(got), err)
				}
				os.RemoveAll(dir)
				ev.Case(true, ev.Hash("link-through-destination", what), func() string { return what + fmt.Sprintf(" = %v", callErr != nil) })
			}
		}
	}
}
