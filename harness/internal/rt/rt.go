// Package rt holds the run-time plumbing shared by all check packages:
// tier / seed / shard handling, rapid configuration, evidence flushing.
package rt

import (
	"flag"
	"fmt"
	"hash/fnv"
	"os"
	"path/filepath"
	"regexp"
	"runtime"
	"strconv"
	"strings"
	"sync/atomic"
	"testing"
	"testing/synctest"
	"time"
	"unicode"

	"pgregory.net/rapid"

	"verif/harness/internal/ev"
)

func Tier() string {
	if os.Getenv("VERIF_TIER") == "thorough" {
		return "thorough"
	}
	return "quick"
}

func Thorough() bool { return Tier() == "thorough" }

func Seed() uint64 {
	s := os.Getenv("VERIF_SEED")
	if s == "" {
		return 1
	}
	v, err := strconv.ParseInt(s, 10, 64)
	if err != nil {
		return 1
	}
	return uint64(v)
}

// Shard returns (index, count) from VERIF_SHARD="i/n" (default 0/1).
func Shard() (int, int) {
	s := os.Getenv("VERIF_SHARD")
	if s == "" {
		return 0, 1
	}
	a, b, ok := strings.Cut(s, "/")
	if !ok {
		return 0, 1
	}
	i, e1 := strconv.Atoi(a)
	n, e2 := strconv.Atoi(b)
	if e1 != nil || e2 != nil || n < 1 || i < 0 || i >= n {
		return 0, 1
	}
	return i, n
}

// N picks the per-process case count for the tier, dividing the thorough
// count over the shards.
func N(quick, thorough int) int {
	n := quick
	if Thorough() {
		n = thorough
	}
	_, sh := Shard()
	n = (n + sh - 1) / sh
	if sc := os.Getenv("VERIF_SCALE"); sc != "" {
		if f, err := strconv.ParseFloat(sc, 64); err == nil && f > 0 {
			n = int(float64(n) * f)
		}
	}
	if n < 1 {
		n = 1
	}
	return n
}

func splitmix(x uint64) uint64 {
	x += 0x9e3779b97f4a7c15
	x = (x ^ (x >> 30)) * 0xbf58476d1ce4e5b9
	x = (x ^ (x >> 27)) * 0x94d049bb133111eb
	return x ^ (x >> 31)
}

// DeriveSeed mixes VERIF_SEED, a name and the shard index into a non-zero seed.
func DeriveSeed(name string) uint64 {
	h := fnv.New64a()
	h.Write([]byte(name))
	i, _ := Shard()
	s := splitmix(Seed() ^ splitmix(h.Sum64()) ^ splitmix(uint64(i)+0x51ed))
	s &= 0x7fffffffffffffff
	if s == 0 {
		s = 1
	}
	return s
}

// Check runs a rapid property with tier-dependent case count and a seed that
// is a pure function of VERIF_SEED, the test name and the shard.
// When VERIF_REPLAY names a rapid fail file, it is replayed instead.
func Check(t *testing.T, quick, thorough int, prop func(*rapid.T)) {
	t.Helper()
	if ff := os.Getenv("VERIF_REPLAY"); ff != "" {
		if safeName(t.Name()) != filepath.Base(filepath.Dir(ff)) {
			t.Skip("not the test whose fail file is being replayed")
		}
		_ = flag.Set("rapid.failfile", ff)
	}
	_ = flag.Set("rapid.checks", strconv.Itoa(N(quick, thorough)))
	_ = flag.Set("rapid.seed", strconv.FormatUint(DeriveSeed(t.Name()), 10))
	name := t.Name()
	rapid.Check(t, func(rt *rapid.T) {
		beatName.Store(name)
		beatDesc.Store("")
		beat.Store(time.Now().UnixNano())
		prop(rt)
		beat.Store(time.Now().UnixNano())
	})
	beat.Store(0)
}

// ---- watchdog for hangs that a synctest bubble cannot see ----
//
// A goroutine waiting for a sync.Mutex is not "durably blocked" for testing/synctest: a lock-order or
// lock-held-across-a-blocking-send mistake inside glb leaves the bubble stuck without a deadlock report, and the only
// symptom is the test deadline (not a verdict). The watchdog runs outside any bubble, on the real clock: when no
// generated case has started or finished for hangAfter AND the goroutine dump shows a goroutine that has been waiting
// on a sync primitive for minutes with a glb frame on its stack, it prints the evidence and ends the process; the
// driver reports that as a violation with the dump as replay log. Long cases without such a goroutine are left alone.

var (
	beat     atomic.Int64
	beatName atomic.Value
	beatDesc atomic.Value
	// quiesceSince != 0: a goroutine of a bubble has been inside one single synctest.Wait() call since then
	quiesceSince atomic.Int64
)

// InBubble brackets one case that runs inside a synctest bubble (no real work, virtual sleeping: milliseconds of real
// time). A case that is still going on more than a minute later cannot finish; the watchdog then looks for goroutines
// that are running or runnable with a glb function on top of their stack, twice, ten seconds apart: spinning inside glb.
func InBubble(on bool) {
	if on {
		bubbleSince.Store(time.Now().UnixNano())
	} else {
		bubbleSince.Store(0)
	}
}

var bubbleSince atomic.Int64

// Quiesce is synctest.Wait() under observation: inside a bubble every goroutine either finishes its step or blocks
// durably within micro- or milliseconds (tasks do no real work, sleeping is virtual), so one Wait() call that is still
// going on a minute later means that some goroutine of the bubble can neither finish nor block. The watchdog then looks
// at the goroutine dump: a goroutine that is running (or runnable) with a glb function on top of its stack, twice, ten
// seconds apart, is spinning inside glb code.
func Quiesce() {
	quiesceSince.Store(time.Now().UnixNano())
	synctest.Wait()
	quiesceSince.Store(0)
}

// (frames of sync/atomic, sync, runtime and internal/... above the glb function do not count: an atomic operation or a
// lock attempt made by the glb function is part of its spinning)
var spinningInGlb = regexp.MustCompile(`^goroutine (\d+) \[(?:running|runnable)[^\]]*\]:\n(?:(?:sync/atomic|sync|runtime|runtime/[a-z]+|internal/[a-z/]+)\.[^\n]*\n[^\n]*\n)*(github\.com/whoisnian/glb/[^\n]*)`)

// spinning returns goroutine id -> top function for goroutines that are running or runnable with a glb function on top.
func spinning() (map[string]string, string) {
	buf := make([]byte, 8<<20)
	buf = buf[:runtime.Stack(buf, true)]
	out := map[string]string{}
	for _, g := range strings.Split(string(buf), "\n\n") {
		if m := spinningInGlb.FindStringSubmatch(g); m != nil {
			out[m[1]] = m[2]
		}
	}
	return out, string(buf)
}

// Describe records a rendering of the case that is running, for the watchdog's report.
func Describe(s string) { beatDesc.Store(s) }

var blockedInGlb = regexp.MustCompile(`(?s)^goroutine (\d+) \[(sync\.Mutex\.Lock|sync\.RWMutex\.R?Lock|semacquire|sync\.Cond\.Wait)[^\]]*\]:.*github\.com/whoisnian/glb/`)

// a goroutine with a glb frame on its stack that can still move: whoever holds the lock the others wait for is one of
// these as long as the lane, the logger, the filter is merely busy
// (a "sleep (durable)" is a sleep on the virtual clock of a bubble: that clock stands still while a goroutine of the
// bubble waits for a lock, so such a sleeper cannot move either and does not count)
var activeInGlb = regexp.MustCompile(`(?s)^goroutine \d+ \[(running|runnable|syscall|IO wait|sleep)(,[^\]]*)?\]:.*github\.com/whoisnian/glb/`)

var waitSuffix = regexp.MustCompile(`^(goroutine \d+ \[[^,\]]*)[^\]]*\]`)

// stuck returns, per goroutine id, the stacks of goroutines waiting on a lock with a glb frame on their stack (the
// "N minutes" part of the header removed), and how many goroutines with a glb frame are not waiting at all.
func stuck() (map[string]string, int, string) {
	buf := make([]byte, 8<<20)
	buf = buf[:runtime.Stack(buf, true)]
	out := map[string]string{}
	active := 0
	for _, g := range strings.Split(string(buf), "\n\n") {
		if m := blockedInGlb.FindStringSubmatch(g); m != nil {
			out[m[1]] = waitSuffix.ReplaceAllString(g, "$1]")
		} else if activeInGlb.MatchString(g) {
			active++
		}
	}
	return out, active, string(buf)
}

func startWatchdog() {
	hangAfter := 45 * time.Second
	if v, err := strconv.Atoi(os.Getenv("VERIF_HANG_SECS")); err == nil && v > 0 {
		hangAfter = time.Duration(v) * time.Second
	}
	go func() {
		for {
			time.Sleep(2 * time.Second)
			if q := bubbleSince.Load(); q != 0 && time.Since(time.Unix(0, q)) > hangAfter+15*time.Second {
				first, _ := spinning()
				time.Sleep(10 * time.Second)
				second, buf := spinning()
				var culprits []string
				for id, fn := range second {
					if first[id] == fn && bubbleSince.Load() == q {
						culprits = append(culprits, "goroutine "+id+" in "+fn)
					}
				}
				if len(culprits) > 0 {
					name, _ := beatName.Load().(string)
					desc, _ := beatDesc.Load().(string)
					fmt.Printf("HANG-IN-GLB: test %s: one case inside a synctest bubble has not finished for %s: goroutines of the bubble neither finish nor block; %d goroutine(s) are spinning inside glb code (%s)\ncase: %s\n\nall goroutines:\n%s\n", name, time.Since(time.Unix(0, q)).Round(time.Second), len(culprits), strings.Join(culprits, "; "), desc, buf)
					ev.Flush()
					os.Exit(4)
				}
			}
			b := beat.Load()
			if b == 0 || time.Since(time.Unix(0, b)) < hangAfter {
				continue
			}
			// stuck means: goroutines wait on a lock inside glb code, and nothing that is inside glb code can move - at
			// two moments 15 s apart, for the same goroutines on the same stacks. A lock that is merely contended (a
			// hammer test on a loaded machine) always has a holder that is running or runnable.
			first, active, _ := stuck()
			if len(first) == 0 || active > 0 {
				continue
			}
			time.Sleep(15 * time.Second)
			if beat.Load() != b {
				continue
			}
			second, active, buf := stuck()
			if active > 0 {
				continue
			}
			var culprits []string
			for id, g := range second {
				if first[id] == g { // the same goroutine, on the same stack, 15 s later
					culprits = append(culprits, g)
				}
			}
			if len(culprits) == 0 {
				continue
			}
			name, _ := beatName.Load().(string)
			desc, _ := beatDesc.Load().(string)
			fmt.Printf("HANG-IN-GLB: test %s made no progress for %s; %d goroutine(s) have been waiting on a lock inside glb code all that time\ncase: %s\n\n%s\n\nall goroutines:\n%s\n", name, time.Since(time.Unix(0, b)).Round(time.Second), len(culprits), desc, strings.Join(culprits, "\n\n"), buf)
			ev.Flush()
			os.Exit(4)
		}
	}()
}

// Main runs the tests and flushes evidence.
func Main(m *testing.M) {
	startWatchdog()
	code := m.Run()
	ev.Flush()
	os.Exit(code)
}

// Inconclusivef reports a harness-side problem that is not a verdict on the
// property: the driver maps it to exit 2.
func Inconclusivef(t testing.TB, format string, args ...any) {
	t.Helper()
	fmt.Printf("HARNESS-INCONCLUSIVE: "+format+"\n", args...)
	t.Fatalf("harness inconclusive: "+format, args...)
}

// safeName mirrors how rapid derives the fail-file directory from a test name.
func safeName(f string) string {
	var sb strings.Builder
	for _, r := range f {
		if unicode.IsLetter(r) || unicode.IsDigit(r) || r == '-' || r == '_' {
			sb.WriteRune(r)
		} else {
			sb.WriteRune('_')
		}
	}
	return sb.String()
}
