// Package lanesim is the scenario interpreter shared by the task-lane checks (C06, C07, C08, C14).
// A Program is executed by a director goroutine inside a testing/synctest bubble (virtual clock,
// exact quiescence detection); every check point evaluates the invariants of all four properties and
// tags each violation with the property it belongs to. Each check package asserts only its own tag.
package lanesim

import (
	"context"
	"errors"
	"fmt"
	"os"
	"reflect"
	"runtime"
	"strings"
	"sync"
	"sync/atomic"
	"time"

	"github.com/whoisnian/glb/tasklane"

	"verif/harness/internal/rt"
)

type TaskKind int

const (
	TInstant TaskKind = iota
	TGated
	TSleep
	TPanic
	TGatedPanic
	TCancel // the task itself cancels the lane's context from inside Start()
	// TGoexit ends its goroutine with runtime.Goexit() (what t.FailNow() does inside a task): on the library as it is
	// the lane's worker is gone afterwards. Such a task does not "return", so the C06/C08 promises about later tasks
	// only count the workers that are left; the shutdown promises of C07 are not conditional on it.
	TGoexit
	// TNil pushes the nil Task value. PushTask accepts it like any other value; "starting" it is a nil method call
	// that panics inside the worker, which recovers - a panicking task like any other, observable at hook point W1.
	TNil
)

var taskKindNames = []string{"instant", "gated", "sleep", "panic", "gatedPanic", "cancel", "goexit", "nil"}

type TaskSpec struct {
	Kind  TaskKind
	Gate  int
	Sleep time.Duration
	Panic int // index into PanicValues
}

func (s TaskSpec) String() string {
	switch s.Kind {
	case TGated:
		return fmt.Sprintf("gated(g%d)", s.Gate)
	case TSleep:
		return fmt.Sprintf("sleep(%s)", s.Sleep)
	case TPanic:
		return fmt.Sprintf("panic(#%d)", s.Panic)
	case TGatedPanic:
		return fmt.Sprintf("gatedPanic(g%d,#%d)", s.Gate, s.Panic)
	case TCancel:
		return "cancelsContext"
	case TGoexit:
		return "goexit"
	case TNil:
		return "nilTask"
	}
	return "instant"
}

// nilTaskPanic stands in s.raised for the run-time error that starting a nil task raises.
type nilTaskPanic struct{}

type customErr struct{ code int }

func (e *customErr) Error() string { return fmt.Sprintf("custom error %d", e.code) }

type panicStruct struct {
	A int
	B string
}

// PanicValues have different dynamic types (one of them not comparable).
// nil stands for panic(nil): recover() gives a *runtime.PanicNilError, or nil when the program runs with GODEBUG=panicnil=1.
// The context errors are what a task panics with when a sub-context of its own ran out (nothing to do with the lane's).
var PanicValues = []any{"boom", errors.New("an error"), 42, panicStruct{7, "x"}, &customErr{3}, []int{1, 2, 3}, 3.5, nil, context.DeadlineExceeded, fmt.Errorf("step 3: %w", context.Canceled),
	// typed nils: an interface value that is not nil although what it holds is ("var e *MyErr; panic(e)")
	(*customErr)(nil), map[string]int(nil), []int(nil), (func())(nil)}

type OpKind int

const (
	OpPush OpKind = iota
	OpSpawnPush
	OpOpen
	OpSettle
	OpAdvance
	OpStatus
	OpPollers
	OpFreeze
	OpThaw
	OpCancel
)

type Op struct {
	Kind  OpKind
	Lane  int
	Task  TaskSpec
	Gate  int
	D     time.Duration
	K     int
	Point string
}

func (o Op) String() string {
	switch o.Kind {
	case OpPush:
		return fmt.Sprintf("push(lane %d, %s)", o.Lane, o.Task)
	case OpSpawnPush:
		return fmt.Sprintf("spawnPush(lane %d, %s)", o.Lane, o.Task)
	case OpOpen:
		return fmt.Sprintf("open(g%d)", o.Gate)
	case OpSettle:
		return "settle"
	case OpAdvance:
		return fmt.Sprintf("advance(%s)", o.D)
	case OpStatus:
		return "status"
	case OpPollers:
		return fmt.Sprintf("pollers(%d)", o.K)
	case OpFreeze:
		return fmt.Sprintf("freeze(%s, lane %d)", o.Point, o.Lane)
	case OpThaw:
		return "thaw"
	case OpCancel:
		return "cancel"
	}
	return "?"
}

type Program struct {
	LaneSize, QueueSize int
	Timeout             time.Duration
	Deadline            time.Duration // > 0: the context expires by deadline after this much virtual time
	LateGates           bool          // at shutdown, gates still closed are opened by a helper goroutine one second after Wait() was called
	CtxFlavor           int           // how the lane's context is made: CtxPlain, CtxCause, CtxChild
	EarlyWaiter         bool          // a goroutine calls Wait() straight after New(): it must not return while the context is live
	Abrupt              bool          // New, a few pushes, cancel, Wait - back to back on one goroutine, without letting the lane settle; Ops are ignored
	BornDone            bool          // the lane is created on a context that is already done
	Sibling             bool          // a second TaskLane lives on the same context, with idle workers and a little work of its own
	Long                bool          // thousands of steps: not watched for spinning goroutines (see RunInBubble)
	Streak              int           // the program starts with that many panicking tasks in a row on lane 0 (statistics only)
	Ops                 []Op
}

// Context flavours: "the context's error" is ctx.Err() however the context came to be done.
const (
	CtxPlain   = iota // context.WithCancel / WithTimeout
	CtxCause          // WithCancelCause / WithTimeoutCause with a cause of the caller's own: Err() is still Canceled / DeadlineExceeded
	CtxChild          // a value-carrying grandchild of the context that is cancelled (with a cause)
	CtxForeign        // a context.Context that is not one of the standard library's (own Done channel, own Err)
	NumCtxFlavors
)

// foreignCtx is a complete context implementation of the caller's own, as merged or bridged contexts are: the
// context package knows nothing about its internals, so anything derived from it learns of a cancel only through Done().
type foreignCtx struct {
	mu       sync.Mutex
	done     chan struct{}
	err      error
	deadline time.Time
}

func (c *foreignCtx) Deadline() (time.Time, bool) { return c.deadline, !c.deadline.IsZero() }
func (c *foreignCtx) Done() <-chan struct{}       { return c.done }
func (c *foreignCtx) Value(any) any               { return nil }
func (c *foreignCtx) Err() error {
	c.mu.Lock()
	defer c.mu.Unlock()
	return c.err
}
func (c *foreignCtx) cancel(err error) {
	c.mu.Lock()
	if c.err == nil {
		c.err = err
		close(c.done)
	}
	c.mu.Unlock()
}

var errCallersCause = errors.New("the caller's own cancellation cause")

type ctxKey struct{}

func (p Program) String() string {
	parts := make([]string, 0, len(p.Ops))
	for i := 0; i < len(p.Ops); {
		// runs of the same pair of steps are written once with a count (programs that warm a lane up with thousands of tasks)
		if i+1 < len(p.Ops) {
			a, b := p.Ops[i].String(), p.Ops[i+1].String()
			n := 1
			for i+2*n+1 < len(p.Ops) && p.Ops[i+2*n].String() == a && p.Ops[i+2*n+1].String() == b {
				n++
			}
			if n >= 4 {
				parts = append(parts, fmt.Sprintf("%d x [%s; %s]", n, a, b))
				i += 2 * n
				continue
			}
		}
		parts = append(parts, p.Ops[i].String())
		i++
	}
	dl := ""
	if p.Deadline > 0 {
		dl = fmt.Sprintf(" deadline=%s", p.Deadline)
	}
	return fmt.Sprintf("lanes=%d queue=%d timeout=%s%s lateGates=%v ctx=%d: %s", p.LaneSize, p.QueueSize, p.Timeout, dl, p.LateGates, p.CtxFlavor, strings.Join(parts, "; "))
}

type Violation struct {
	Prop string // C06, C07, C08 or C14
	Msg  string
}

// Result describes one executed program.
type Result struct {
	Violations []Violation
	// classification for evidence / non-triviality rules
	Producers            int
	PushTimeouts         int
	PushRejectedByCtx    int
	Accepted             int
	Started              int
	HandoverViaShared    int // tasks started by a worker other than the lane they were pushed to
	SharedWhileOwnPinned int // ... while the lane's own worker was inside a gated task
	CancelWithFrozen     bool
	CancelWithBlocked    bool
	CancelPoint          string
	Cancelled            bool
	ByDeadline           bool
	PanicsRaised         int
	PanicTypes           int
	SimultaneousPanics   bool
	PollersRan           bool
	StatusCalls          int
	ExactPendingChecks   int
	MaxRunning           int
	QuiescentChecks      int
	HookHits             map[string]int
	FreezeHit            map[string]int
	Steps                int
}

type task struct {
	sim       *sim
	id        int
	spec      TaskSpec
	lane      int
	count     atomic.Int32
	pushed    bool         // PushTask returned
	err       error        // its result
	afterCxl  bool         // PushTask began after the director cancelled the context
	startedBy atomic.Int32 // worker lane that received it (from the W1 hook), -1 unknown
	inside    atomic.Bool
}

// The lane accepts anything with a Start method. Besides the pointer type, tasks are handed over as values of two
// other dynamic types (a func type and a struct holding a slice - neither is comparable or hashable), because
// nothing in the contract says a task must be usable as a map key.
type funcTask func()

func (f funcTask) Start() { f() }

type sliceTask struct {
	t   *task
	pad []int
}

func (v sliceTask) Start() { v.t.Start() }

// wrap picks the dynamic type under which task t is pushed (by task id, so that programs stay deterministic).
func (t *task) wrap() tasklane.Task {
	if t.spec.Kind == TNil {
		return nil
	}
	switch t.id % 4 {
	case 1:
		return funcTask(t.Start)
	case 2:
		return sliceTask{t: t, pad: []int{t.id}}
	}
	return t
}

func unwrap(tk tasklane.Task) *task {
	switch v := tk.(type) {
	case *task:
		return v
	case sliceTask:
		return v.t
	}
	return nil // a funcTask cannot be traced back; only used for statistics
}

type freeze struct {
	point string
	lane  int
	ch    chan struct{}
	hit   atomic.Bool
}

type sim struct {
	p               Program
	tl              *tasklane.TaskLane
	ctx             context.Context
	cancel          context.CancelFunc
	start           time.Time
	mu              sync.Mutex
	tasks           []*task
	viol            []Violation
	raised          []any
	gates           map[int]chan struct{}
	opened          map[int]bool
	allOpen         bool
	running         atomic.Int32
	lastReturn      atomic.Int64 // virtual time at which a task body last returned
	maxRun          atomic.Int32
	armed           atomic.Pointer[freeze]
	cancelled       atomic.Bool
	byTask          atomic.Bool
	goexits         atomic.Int32 // tasks that ended their goroutine with runtime.Goexit()
	nilTaken        atomic.Int32 // nil tasks a worker was about to start (hook point W1)
	sib             *tasklane.TaskLane
	sibTasks        []*siblingTask
	sibRunning      atomic.Int32
	directorPushing atomic.Bool
	producers       sync.WaitGroup
	pollers         sync.WaitGroup
	res             Result
	pinned          []atomic.Int32 // per worker lane: >0 while that worker is inside a gated task
}

func (s *sim) violate(prop, format string, args ...any) {
	s.mu.Lock()
	if len(s.viol) < 20 {
		s.viol = append(s.viol, Violation{prop, fmt.Sprintf(format, args...)})
	}
	s.mu.Unlock()
}

func (t *task) Start() {
	s := t.sim
	if n := t.count.Add(1); n > 1 {
		s.violate("C06", "task #%d (%s, pushed to lane %d) was started %d times", t.id, t.spec, t.lane, n)
	}
	r := s.running.Add(1)
	for {
		m := s.maxRun.Load()
		if r <= m || s.maxRun.CompareAndSwap(m, r) {
			break
		}
	}
	if int(r) > s.p.LaneSize {
		s.violate("C08", "%d tasks executing at once with laneSize %d", r, s.p.LaneSize)
	}
	t.inside.Store(true)
	w := int(t.startedBy.Load())
	gatedKind := t.spec.Kind == TGated || t.spec.Kind == TGatedPanic
	if gatedKind && w >= 0 && w < len(s.pinned) {
		s.pinned[w].Add(1)
	}
	defer func() {
		if gatedKind && w >= 0 && w < len(s.pinned) {
			s.pinned[w].Add(-1)
		}
		t.inside.Store(false)
		s.running.Add(-1)
		s.lastReturn.Store(time.Now().UnixNano())
	}()
	switch t.spec.Kind {
	case TGated:
		<-s.gate(t.spec.Gate)
	case TSleep:
		time.Sleep(t.spec.Sleep)
	case TCancel:
		s.cancel()
		s.cancelled.Store(true)
		s.byTask.Store(true)
	case TGoexit:
		s.goexits.Add(1)
		runtime.Goexit()
	case TPanic, TGatedPanic:
		if t.spec.Kind == TGatedPanic {
			<-s.gate(t.spec.Gate)
		}
		v := PanicValues[t.spec.Panic%len(PanicValues)]
		s.mu.Lock()
		s.raised = append(s.raised, v)
		s.mu.Unlock()
		panic(v)
	}
}

func (s *sim) gate(g int) chan struct{} {
	s.mu.Lock()
	defer s.mu.Unlock()
	ch, ok := s.gates[g]
	if !ok {
		ch = make(chan struct{})
		s.gates[g] = ch
		if s.allOpen {
			s.opened[g] = true
			close(ch)
		}
	}
	return ch
}

func (s *sim) open(g int) {
	ch := s.gate(g)
	s.mu.Lock()
	if !s.opened[g] {
		s.opened[g] = true
		close(ch)
	}
	s.mu.Unlock()
}

func (s *sim) openAll() {
	s.mu.Lock()
	s.allOpen = true // gates first mentioned later (by a task that starts afterwards) are born open
	var gs []int
	for g := range s.gates {
		gs = append(gs, g)
	}
	s.mu.Unlock()
	for _, g := range gs {
		s.open(g)
	}
}

// siblingTask is a task of the second TaskLane on the same context (see Program.Sibling).
type siblingTask struct {
	s     *sim
	count atomic.Int32
}

func (d *siblingTask) Start() {
	d.count.Add(1)
	if r := d.s.sibRunning.Add(1); r > 2 {
		d.s.violate("C08", "%d tasks of the second lane (laneSize 2) executing at once", r)
	}
	d.s.sibRunning.Add(-1)
}

func (s *sim) hook(point string, lane int, tk tasklane.Task) {
	if _, other := tk.(*siblingTask); other {
		return // the second lane's own traffic is not part of the protocol under observation
	}
	s.mu.Lock()
	s.res.HookHits[point]++
	s.mu.Unlock()
	if tk == nil && point == "W1" {
		s.nilTaken.Add(1) // a worker is about to start a nil task: it will panic and recover
	}
	if tk == nil && point == "W2" {
		s.mu.Lock()
		s.raised = append(s.raised, nilTaskPanic{}) // by now the worker has recovered from the nil method call
		s.mu.Unlock()
	}
	if t := unwrap(tk); t != nil && point == "W1" {
		t.startedBy.Store(int32(lane))
		if lane != t.lane {
			s.mu.Lock()
			s.res.HandoverViaShared++
			if t.lane < len(s.pinned) && s.pinned[t.lane].Load() > 0 {
				s.res.SharedWhileOwnPinned++
			}
			s.mu.Unlock()
		}
	}
	if (point == "P1" || point == "P2") && s.directorPushing.Load() {
		return // never park the director itself
	}
	if f := s.armed.Load(); f != nil && f.point == point && f.lane == lane && f.hit.CompareAndSwap(false, true) {
		s.mu.Lock()
		s.res.FreezeHit[point]++
		s.mu.Unlock()
		<-f.ch
	}
}

func (s *sim) live() bool {
	return !s.cancelled.Load() && s.ctx.Err() == nil
}

func (s *sim) frozen() bool {
	f := s.armed.Load()
	return f != nil && f.hit.Load()
}

func (s *sim) checkStatus(where string) *tasklane.LaneStatus {
	st := s.tl.Status()
	s.mu.Lock()
	s.res.StatusCalls++
	s.mu.Unlock()
	if max := s.p.LaneSize * (s.p.QueueSize + 1); st.PendingTask < 0 || st.PendingTask > max {
		s.violate("C14", "%s: Status().PendingTask = %d, outside [0, laneSize*(queueSize+1) = %d]", where, st.PendingTask, max)
	}
	if st.LaneSize != s.p.LaneSize || st.QueueSize != s.p.QueueSize {
		s.violate("C14", "%s: Status() reports sizes %d/%d, configured %d/%d", where, st.LaneSize, st.QueueSize, s.p.LaneSize, s.p.QueueSize)
	}
	return st
}

// quiescent is called right after rt.Quiesce(): every other goroutine of the bubble is durably blocked.
func (s *sim) quiescent(where string) {
	s.res.QuiescentChecks++
	type tsnap struct {
		id, lane int
		spec     TaskSpec
		count    int
		pushed   bool
		err      error
	}
	s.mu.Lock()
	tasks := make([]tsnap, len(s.tasks))
	for i, t := range s.tasks {
		tasks[i] = tsnap{t.id, t.lane, t.spec, int(t.count.Load()), t.pushed, t.err}
	}
	raised := append([]any(nil), s.raised...)
	s.mu.Unlock()
	accepted, started := 0, 0
	nilAccepted, nilInFlight := 0, 0
	for _, t := range tasks {
		if t.spec.Kind == TNil {
			if t.pushed && t.err == nil {
				nilAccepted++
			} else if !t.pushed {
				nilInFlight++ // its PushTask has not returned yet (it may have enqueued already: parked at P2)
			}
			continue // nil tasks have no counter of their own: they are counted at W1
		}
		c := t.count
		if c > 1 {
			s.violate("C06", "%s: task #%d (%s) has been started %d times", where, t.id, t.spec, c)
		}
		if t.pushed && t.err != nil && c > 0 {
			s.violate("C06", "%s: task #%d (%s, lane %d) was started although PushTask returned %v", where, t.id, t.spec, t.lane, t.err)
		}
		if t.pushed && t.err == nil {
			accepted++
			if c >= 1 {
				started++
			}
		}
	}
	if nt := int(s.nilTaken.Load()); nt > nilAccepted+nilInFlight {
		s.violate("C06", "%s: %d nil task(s) were accepted (%d more pushes in progress) but workers started a nil task %d times", where, nilAccepted, nilInFlight, nt)
	} else {
		accepted += nilAccepted
		started += min(nt, nilAccepted)
	}
	if m := int(s.maxRun.Load()); m > s.p.LaneSize {
		s.violate("C08", "%s: up to %d tasks were executing at once with laneSize %d", where, m, s.p.LaneSize)
	}
	st := s.checkStatus(where)
	_, lastIsRuntimeErr := st.LastPanic.(runtime.Error)
	if lastIsRuntimeErr && s.nilTaken.Load() > 0 {
		// the nil method call of a nil task that a worker has taken (it may not have reached W2 yet)
	} else if len(raised) == 0 {
		if st.LastPanic != nil {
			s.violate("C14", "%s: Status().LastPanic = %#v although no task has panicked", where, st.LastPanic)
		}
	} else {
		ok := false
		for _, v := range raised {
			if reflect.DeepEqual(st.LastPanic, v) {
				ok = true
			}
			if v == nil {
				// panic(nil): the recovered value is a *runtime.PanicNilError; with GODEBUG=panicnil=1 recover() yields
				// nil and the panic cannot be told from a normal return, so LastPanic keeps whatever it was
				if _, isNilErr := st.LastPanic.(*runtime.PanicNilError); isNilErr || strings.Contains(os.Getenv("GODEBUG"), "panicnil=1") {
					ok = true
				}
			}
			if _, isNil := v.(nilTaskPanic); isNil {
				if _, rte := st.LastPanic.(runtime.Error); rte {
					ok = true // the nil method call of a nil task
				}
			}
		}
		if !ok {
			s.violate("C14", "%s: Status().LastPanic = %#v is none of the %d panic values raised so far", where, st.LastPanic, len(raised))
		}
	}
	if s.ctx.Err() != nil {
		// the context is done and nothing can move any more without the clock: every PushTask that was in
		// progress must have been released (a producer the harness itself parked at P1/P2 is excused)
		excused := 0
		if f := s.armed.Load(); f != nil && f.hit.Load() && (f.point == "P1" || f.point == "P2") {
			excused = 1
		}
		blocked := 0
		for _, t := range tasks {
			if !t.pushed {
				blocked++
			}
		}
		if blocked > excused {
			s.violate("C07", "%s: the context is done (%v) but %d PushTask call(s) are still blocked (virtual time has not advanced since)", where, s.ctx.Err(), blocked-excused)
		}
	}
	if s.live() && !s.frozen() {
		unstarted := accepted - started
		gauge := int(s.running.Load())
		workers := s.p.LaneSize - int(s.goexits.Load()) // a task that ended its goroutine took a worker with it
		if unstarted > 0 && gauge < workers {
			s.violate("C08", "%s: at rest %d accepted task(s) are waiting while only %d of %d workers are busy", where, unstarted, gauge, workers)
			if gauge == 0 {
				s.violate("C06", "%s: at rest with a live context and every worker idle, %d accepted task(s) have never been started", where, unstarted)
			}
		}
		if st.PendingTask != unstarted {
			s.violate("C14", "%s: at rest Status().PendingTask = %d, but %d accepted task(s) have not been started (accepted %d, started %d)", where, st.PendingTask, unstarted, accepted, started)
		}
		s.res.ExactPendingChecks++
	}
}

func (s *sim) newTask(spec TaskSpec, lane int) *task {
	t := &task{sim: s, spec: spec, lane: lane}
	t.startedBy.Store(-1)
	s.mu.Lock()
	t.id = len(s.tasks)
	s.tasks = append(s.tasks, t)
	s.mu.Unlock()
	return t
}

func (s *sim) push(t *task, producer bool) {
	after := s.cancelled.Load() // the director cancelled before this PushTask began
	var before int
	if after && !producer {
		// compare PendingTask around the call only from a quiescent state: a lane goroutine that was just thawed
		// may still be on its way out (it bumps the hand-over counter before it notices the cancel), and that must
		// not be mistaken for this PushTask having enqueued something
		rt.Quiesce()
		before = s.tl.Status().PendingTask
	}
	err := s.tl.PushTask(t.wrap(), t.lane)
	s.mu.Lock()
	t.err, t.pushed, t.afterCxl = err, true, after
	switch {
	case err == nil:
		s.res.Accepted++
	case errors.Is(err, tasklane.ErrTimeout):
		s.res.PushTimeouts++
	default:
		s.res.PushRejectedByCtx++
	}
	s.mu.Unlock()
	if after {
		if err == nil || !errors.Is(err, s.ctx.Err()) {
			s.violate("C07", "PushTask(task #%d, lane %d) begun after the context was cancelled returned %v, want %v", t.id, t.lane, err, s.ctx.Err())
		}
		if !producer {
			if now := s.tl.Status().PendingTask; now > before {
				s.violate("C07", "PushTask begun after the cancel enqueued its task: PendingTask went from %d to %d", before, now)
			}
		}
	}
	if err != nil && !errors.Is(err, tasklane.ErrTimeout) && !errors.Is(err, context.Canceled) && !errors.Is(err, context.DeadlineExceeded) {
		s.violate("C06", "PushTask returned an undocumented error %v", err)
	}
}

// abrupt: New, a push per lane, cancel, Wait - back to back on the calling goroutine. Whatever the lane's goroutines
// still have to do when Wait() is called (they may not even have been scheduled yet), Wait() covers it: once it has
// returned no task is started any more.
func (s *sim) abrupt() {
	s.directorPushing.Store(true)
	for lane := 0; lane < s.p.LaneSize && lane < 8; lane++ {
		s.push(s.newTask(TaskSpec{Kind: TInstant}, lane), true)
	}
	s.directorPushing.Store(false)
	s.cancel()
	s.cancelled.Store(true)
	s.res.Cancelled = true
	s.res.CancelPoint = "abrupt"
	s.tl.Wait()
	if r := s.running.Load(); r > 0 {
		s.violate("C07", "Wait() returned while %d task(s) the lane had started had not returned yet", r)
	}
	s.mu.Lock()
	counts := make([]int32, len(s.tasks))
	for i, t := range s.tasks {
		counts[i] = t.count.Load()
	}
	s.mu.Unlock()
	time.Sleep(10 * time.Second)
	rt.Quiesce()
	s.mu.Lock()
	for i, t := range s.tasks {
		if i < len(counts) && t.count.Load() != counts[i] {
			s.viol = append(s.viol, Violation{"C07", fmt.Sprintf("New, push, cancel, Wait back to back: task #%d (lane %d) was started after Wait() had returned", t.id, t.lane)})
		}
		if t.count.Load() > 1 {
			s.viol = append(s.viol, Violation{"C06", fmt.Sprintf("task #%d was started %d times", t.id, t.count.Load())})
		}
	}
	s.mu.Unlock()
	s.pollers.Wait()
}

// pushRightAfterCancel calls PushTask on every lane on the very goroutine that has just cancelled the context, before
// any other goroutine gets a chance to run: "begins afterwards" includes "immediately afterwards", whatever the lane
// has to do internally to learn of the cancel.
func (s *sim) pushRightAfterCancel() {
	s.directorPushing.Store(true)
	for lane := 0; lane < s.p.LaneSize && lane < 4; lane++ {
		s.push(s.newTask(TaskSpec{Kind: TInstant}, lane), true)
	}
	s.directorPushing.Store(false)
}

// Run executes the program. It must be called on the root goroutine of a synctest bubble.
func Run(p Program) (res Result) {
	s := &sim{p: p, gates: map[int]chan struct{}{}, opened: map[int]bool{}, start: time.Now()}
	s.res.HookHits = map[string]int{}
	s.res.FreezeHit = map[string]int{}
	s.pinned = make([]atomic.Int32, p.LaneSize)
	switch {
	case p.CtxFlavor == CtxForeign:
		fc := &foreignCtx{done: make(chan struct{})}
		if p.Deadline > 0 {
			fc.deadline = time.Now().Add(p.Deadline)
			tm := time.AfterFunc(p.Deadline, func() { fc.cancel(context.DeadlineExceeded) })
			defer tm.Stop()
		}
		s.ctx, s.cancel = fc, func() { fc.cancel(context.Canceled) }
	case p.Deadline > 0 && p.CtxFlavor == CtxPlain:
		s.ctx, s.cancel = context.WithTimeout(context.Background(), p.Deadline)
	case p.Deadline > 0 && p.CtxFlavor == CtxCause:
		s.ctx, s.cancel = context.WithTimeoutCause(context.Background(), p.Deadline, errCallersCause)
	case p.Deadline > 0:
		parent, cancelParent := context.WithTimeoutCause(context.Background(), p.Deadline, errCallersCause)
		child, cancelChild := context.WithCancel(context.WithValue(parent, ctxKey{}, 1))
		s.ctx, s.cancel = context.WithValue(child, ctxKey{}, 2), func() { cancelParent(); cancelChild() }
	case p.CtxFlavor == CtxCause:
		ctx, cancelCause := context.WithCancelCause(context.Background())
		s.ctx, s.cancel = ctx, func() { cancelCause(errCallersCause) }
	case p.CtxFlavor == CtxChild:
		parent, cancelCause := context.WithCancelCause(context.Background())
		child, cancelChild := context.WithCancel(context.WithValue(parent, ctxKey{}, 1))
		s.ctx, s.cancel = context.WithValue(child, ctxKey{}, 2), func() { cancelCause(errCallersCause); cancelChild() }
	default:
		s.ctx, s.cancel = context.WithCancel(context.Background())
	}
	s.res.ByDeadline = p.Deadline > 0
	hk := s.hook
	tasklane.VerifHook.Store(&hk)
	defer tasklane.VerifHook.Store(nil)
	if p.BornDone {
		s.cancel()
		s.cancelled.Store(true)
		s.res.Cancelled = true
		s.res.CancelPoint = "before New"
	}
	s.tl = tasklane.New(s.ctx, p.LaneSize, p.QueueSize)
	if p.Sibling {
		// two lanes of one program on one context (one per kind of work): they share nothing but the context. The
		// second one has two workers that are idle most of the time - and must stay idle whatever the first one queues
		s.sib = tasklane.New(s.ctx, 2, 1)
		for i := 0; i < 2; i++ {
			d := &siblingTask{s: s}
			s.sibTasks = append(s.sibTasks, d)
			if err := s.sib.PushTask(d, i); err != nil && s.ctx.Err() == nil {
				s.violate("C06", "second lane: PushTask returned %v on a live context with room", err)
			}
		}
	}
	if p.EarlyWaiter {
		// Wait() may be called at any time, also before the lane's goroutines have been scheduled for the first time
		s.pollers.Add(1)
		go func() {
			defer s.pollers.Done()
			s.tl.Wait()
			if s.ctx.Err() == nil {
				s.violate("C07", "a Wait() call begun straight after New() returned while the context was still live: the lane's goroutines are still there")
			}
		}()
	}
	s.tl.SetTimeout(p.Timeout)
	if p.Abrupt {
		s.abrupt()
		s.mu.Lock()
		res = s.res
		res.Violations = append(res.Violations, s.viol...)
		s.mu.Unlock()
		return res
	}

	maxSleep := p.Timeout
	for i, op := range p.Ops {
		s.res.Steps = i + 1
		if p.Deadline > 0 && !s.cancelled.Load() && s.ctx.Err() != nil {
			s.cancelled.Store(true) // the deadline passed in virtual time
			s.res.Cancelled = true
			s.res.CancelPoint = "deadline"
		}
		switch op.Kind {
		case OpPush:
			if op.Task.Sleep > 0 {
				maxSleep += op.Task.Sleep
			}
			s.directorPushing.Store(true)
			s.push(s.newTask(op.Task, op.Lane%p.LaneSize), false)
			s.directorPushing.Store(false)
		case OpSpawnPush:
			if op.Task.Sleep > 0 {
				maxSleep += op.Task.Sleep
			}
			t := s.newTask(op.Task, op.Lane%p.LaneSize)
			s.res.Producers++
			s.producers.Add(1)
			go func() {
				defer s.producers.Done()
				s.push(t, true)
			}()
		case OpOpen:
			s.open(op.Gate)
		case OpSettle:
			rt.Quiesce()
			s.quiescent(fmt.Sprintf("step %d (settle)", i))
		case OpAdvance:
			time.Sleep(op.D)
		case OpStatus:
			s.checkStatus(fmt.Sprintf("step %d (status)", i))
		case OpPollers:
			s.res.PollersRan = true
			for k := 0; k < op.K; k++ {
				s.pollers.Add(1)
				go func() {
					defer s.pollers.Done()
					for j := 0; j < 40; j++ {
						s.checkStatus("concurrent poller")
						runtime.Gosched()
					}
				}()
			}
		case OpFreeze:
			if s.armed.Load() == nil {
				s.armed.Store(&freeze{point: op.Point, lane: op.Lane % p.LaneSize, ch: make(chan struct{})})
			}
		case OpThaw:
			s.thaw()
		case OpCancel:
			if !s.cancelled.Load() {
				rt.Quiesce() // make the state in which the cancel lands well defined
				s.noteCancelState()
				s.cancel()
				s.cancelled.Store(true)
				s.res.Cancelled = true
				s.pushRightAfterCancel()
				rt.Quiesce()
				s.quiescent(fmt.Sprintf("step %d (right after cancel)", i))
			}
		}
	}
	s.shutdown(maxSleep)
	s.mu.Lock()
	res = s.res
	res.Violations = append(res.Violations, s.viol...)
	res.MaxRunning = int(s.maxRun.Load())
	res.PanicsRaised = len(s.raised)
	types := map[reflect.Type]bool{}
	for _, v := range s.raised {
		types[reflect.TypeOf(v)] = true
	}
	res.PanicTypes = len(types)
	for _, t := range s.tasks {
		if t.count.Load() >= 1 {
			res.Started++
		}
	}
	s.mu.Unlock()
	return res
}

func (s *sim) noteCancelState() {
	if s.frozen() {
		s.res.CancelWithFrozen = true
		s.res.CancelPoint = s.armed.Load().point
	}
	s.mu.Lock()
	for _, t := range s.tasks {
		if !t.pushed {
			s.res.CancelWithBlocked = true
		}
	}
	s.mu.Unlock()
	if s.res.CancelPoint == "" {
		s.res.CancelPoint = "no-freeze"
	}
}

func (s *sim) thaw() {
	if f := s.armed.Load(); f != nil {
		s.armed.Store(nil) // disarm first: a late hit must not park a goroutine nobody will release
		if !f.hit.CompareAndSwap(false, true) {
			close(f.ch)
		}
	}
}

func (s *sim) shutdown(maxSleep time.Duration) {
	big := maxSleep + 10*time.Second
	// 1. with a live context: release everything and check that nothing accepted is left behind
	rt.Quiesce()
	s.quiescent("before shutdown")
	if p := s.p; p.Deadline > 0 && !s.cancelled.Load() && s.ctx.Err() != nil {
		s.cancelled.Store(true)
		s.res.Cancelled = true
		s.res.CancelPoint = "deadline"
	}
	if s.live() {
		s.thaw()
		s.openAll()
		if s.p.Deadline == 0 || time.Since(s.start)+big < s.p.Deadline {
			time.Sleep(big)
			rt.Quiesce()
			s.quiescent("final, context live, all gates open, time advanced")
			s.mu.Lock()
			for _, t := range s.tasks {
				if !s.live() {
					break // a task cancelled the context while the gates were being opened: pending tasks may be dropped
				}
				if !t.pushed {
					s.viol = append(s.viol, Violation{"C06", fmt.Sprintf("PushTask(task #%d, lane %d) has not returned %s after it was called (timeout %s)", t.id, t.lane, big, s.p.Timeout)})
				} else if t.spec.Kind == TNil {
					// counted at W1, judged by quiescent() above
				} else if t.err == nil && t.count.Load() != 1 && (t.count.Load() > 1 || int(s.goexits.Load()) < s.p.LaneSize) {
					s.viol = append(s.viol, Violation{"C06", fmt.Sprintf("with a live context, all gates open and time advanced, accepted task #%d (%s, lane %d) has start count %d, want 1", t.id, t.spec, t.lane, t.count.Load())})
				}
			}
			s.mu.Unlock()
		}
		rt.Quiesce()
		s.noteCancelState()
		s.cancel()
		s.cancelled.Store(true)
		s.res.Cancelled = true
		s.pushRightAfterCancel()
		rt.Quiesce()
		s.quiescent("right after the final cancel")
	}
	// 2. after the cancel: every new PushTask is refused
	s.directorPushing.Store(true)
	for lane := 0; lane < s.p.LaneSize; lane++ {
		spec := TaskSpec{Kind: TInstant}
		if lane%3 == 1 {
			spec = TaskSpec{Kind: TNil} // whatever is pushed after the cancel - the nil Task too - is refused with the context's error
		}
		s.push(s.newTask(spec, lane), false)
	}
	s.directorPushing.Store(false)
	// 3. Wait returns once the running tasks have returned
	s.thaw()
	if s.p.LateGates {
		go func() {
			time.Sleep(time.Second)
			s.openAll()
		}()
	} else {
		s.openAll()
	}
	// while Wait() is in progress, producers keep trying: every such PushTask must come back with the context's
	// error, and it must not disturb Wait() (a producer that retries during shutdown is ordinary use)
	for h := 0; h < 3; h++ {
		s.producers.Add(1)
		go func(h int) {
			defer s.producers.Done()
			for k := 0; k < 40; k++ {
				spec := TaskSpec{Kind: TInstant}
				if k%5 == 3 {
					spec = TaskSpec{Kind: TNil}
				}
				t := s.newTask(spec, (h+k)%s.p.LaneSize)
				s.push(t, true)
				if k%8 == 7 {
					runtime.Gosched()
				}
			}
		}(h)
	}
	// Wait() may be called by several goroutines; all of them are released
	var waiters sync.WaitGroup
	for w := 0; w < 2; w++ {
		waiters.Add(1)
		go func() {
			defer waiters.Done()
			s.tl.Wait()
		}()
	}
	waitCalled := time.Now()
	s.tl.Wait() // if a lane goroutine never exits, the bubble reports a deadlock here
	if r := s.running.Load(); r > 0 {
		s.violate("C07", "Wait() returned while %d task(s) the lane had started had not returned yet", r)
	}
	if last := time.Unix(0, s.lastReturn.Load()); s.lastReturn.Load() != 0 && last.After(waitCalled) {
		waitCalled = last
	}
	if late := time.Since(waitCalled); late > 0 {
		// virtual time only advances while every goroutine is blocked: the lane sat idle before it let Wait() go
		s.violate("C07", "Wait() returned %s (virtual time) after the last running task had returned", late)
	}
	s.openAll()
	counts := make([]int32, 0)
	s.mu.Lock()
	for _, t := range s.tasks {
		counts = append(counts, t.count.Load())
	}
	s.mu.Unlock()
	// 4. after Wait has returned nothing is ever started
	time.Sleep(big)
	rt.Quiesce()
	s.mu.Lock()
	for i, t := range s.tasks {
		if i < len(counts) && t.count.Load() != counts[i] {
			s.viol = append(s.viol, Violation{"C07", fmt.Sprintf("task #%d (%s) was started after Wait() had returned", t.id, t.spec)})
		}
		if t.count.Load() > 1 {
			s.viol = append(s.viol, Violation{"C06", fmt.Sprintf("task #%d (%s) was started %d times", t.id, t.spec, t.count.Load())})
		}
		if t.pushed && t.err != nil && t.count.Load() > 0 {
			s.viol = append(s.viol, Violation{"C06", fmt.Sprintf("task #%d was started although PushTask returned %v", t.id, t.err)})
		}
	}
	s.mu.Unlock()
	waiters.Wait()     // every concurrent Wait() call returns (a stuck one is a bubble deadlock)
	s.producers.Wait() // producers blocked at the time of the cancel must have been released
	s.pollers.Wait()
	s.checkStatus("after Wait")
	if s.sib != nil {
		s.sib.Wait()
		for i, d := range s.sibTasks {
			if c := d.count.Load(); c > 1 {
				s.violate("C06", "second lane: its task #%d was started %d times", i, c)
			}
		}
	}
}
