package lanesim

import (
	"fmt"
	"strings"
	"time"
	"verif/harness/internal/rt"

	"pgregory.net/rapid"
)

// Bias steers the program generator towards the situations one property is about.
type Bias struct {
	MinLanes  int
	Weights   map[OpKind]int
	TaskKinds []TaskKind // sampled uniformly (repeat to weight)
	PinFirst  bool       // start by pinning some workers with gated tasks (C08)
	Deadline  int        // percentage of programs whose context expires by deadline
	MaxOps    int
	Cancel    bool // allow an explicit cancel in the middle
	LaneFocus bool // push most tasks to the pinned / one lane
	// PanicStreak: one program in eight starts with 12..40 panicking tasks in a row on lane 0 (in half of them the
	// only lane), each followed by a settle, and then an ordinary task: whatever a worker remembers about the panics
	// it has recovered from, the next task is served like the first
	PanicStreak bool
}

var Points = []string{"Q1", "Q2", "Q3", "W1", "W2", "P1", "P2"}

func genTask(t *rapid.T, b Bias) TaskSpec {
	k := rapid.SampledFrom(b.TaskKinds).Draw(t, "taskKind")
	ts := TaskSpec{Kind: k}
	switch k {
	case TGated:
		ts.Gate = rapid.IntRange(0, 3).Draw(t, "gate")
	case TSleep:
		ts.Sleep = rapid.SampledFrom([]time.Duration{time.Millisecond, 50 * time.Millisecond, 2 * time.Second}).Draw(t, "sleep")
	case TPanic:
		ts.Panic = rapid.IntRange(0, len(PanicValues)-1).Draw(t, "panicValue")
	case TGatedPanic:
		ts.Gate = rapid.IntRange(0, 3).Draw(t, "gate")
		ts.Panic = rapid.IntRange(0, len(PanicValues)-1).Draw(t, "panicValue")
	}
	return ts
}

func GenProgram(b Bias) *rapid.Generator[Program] {
	return rapid.Custom(func(t *rapid.T) Program {
		minL := b.MinLanes
		if minL < 1 {
			minL = 1
		}
		p := Program{
			LaneSize:  rapid.OneOf(rapid.IntRange(minL, 4), rapid.IntRange(minL, 4), rapid.IntRange(minL, 4), rapid.IntRange(minL, 4), rapid.SampledFrom([]int{8, 31, 32, 33, 40, 64, 65, 255, 256, 257, 300, 1025})).Draw(t, "laneSize"),
			QueueSize: rapid.IntRange(0, 3).Draw(t, "queueSize"),
			Timeout:   rapid.SampledFrom([]time.Duration{time.Millisecond, 100 * time.Millisecond, 100 * time.Millisecond, time.Second, time.Second, 0, -time.Second}).Draw(t, "timeout"),
			LateGates: rapid.IntRange(0, 3).Draw(t, "lateGates") == 0,
			CtxFlavor: rapid.SampledFrom([]int{CtxPlain, CtxPlain, CtxCause, CtxChild, CtxForeign}).Draw(t, "ctxFlavor"),
		}
		p.Sibling = rapid.IntRange(0, 5).Draw(t, "siblingLaneOnTheSameContext") == 0
		// a goroutine that sits in Wait() from the start (main, waiting for the lane it has just created) is ordinary use
		// whatever else the program does
		p.EarlyWaiter = rapid.IntRange(0, 4).Draw(t, "earlyWaiter") == 0
		if b.Cancel {
			p.Abrupt = rapid.IntRange(0, 9).Draw(t, "abrupt") == 0
			p.BornDone = rapid.IntRange(0, 14).Draw(t, "bornDone") == 0
		}
		if rapid.IntRange(0, 99).Draw(t, "useDeadline") < b.Deadline {
			p.Deadline = rapid.SampledFrom([]time.Duration{50 * time.Millisecond, 500 * time.Millisecond, 3 * time.Second, 30 * time.Second}).Draw(t, "deadline")
		}
		if b.PanicStreak && rapid.IntRange(0, 7).Draw(t, "panicStreak") == 0 {
			if rapid.Bool().Draw(t, "singleLane") {
				p.LaneSize = 1
			}
			p.Deadline = 0
			n := rapid.SampledFrom([]int{12, 16, 24, 40}).Draw(t, "streakLength")
			same := rapid.Bool().Draw(t, "sameValueEveryTime")
			v0 := rapid.IntRange(0, len(PanicValues)-1).Draw(t, "streakValue")
			for i := 0; i < n; i++ {
				v := v0
				if !same {
					v = (v0 + i) % len(PanicValues)
				}
				p.Ops = append(p.Ops, Op{Kind: OpPush, Lane: 0, Task: TaskSpec{Kind: TPanic, Panic: v}}, Op{Kind: OpSettle})
			}
			p.Ops = append(p.Ops, Op{Kind: OpPush, Lane: 0, Task: TaskSpec{Kind: TInstant}}, Op{Kind: OpSettle})
			p.Streak = n
		}
		focus := 0
		if b.PinFirst {
			p.Ops = append(p.Ops, Op{Kind: OpSettle})
			npin := rapid.IntRange(1, p.LaneSize-1).Draw(t, "npinned")
			for l := 0; l < npin; l++ {
				p.Ops = append(p.Ops, Op{Kind: OpPush, Lane: l, Task: TaskSpec{Kind: TGated, Gate: 10 + l}}, Op{Kind: OpSettle})
			}
			focus = rapid.IntRange(0, npin-1).Draw(t, "focusLane")
		} else if b.LaneFocus {
			focus = rapid.IntRange(0, p.LaneSize-1).Draw(t, "focusLane")
		}
		var kinds []OpKind
		for k, w := range b.Weights {
			_ = k
			_ = w
		}
		for _, k := range []OpKind{OpPush, OpSpawnPush, OpOpen, OpSettle, OpAdvance, OpStatus, OpPollers, OpFreeze, OpThaw, OpCancel} {
			for i := 0; i < b.Weights[k]; i++ {
				kinds = append(kinds, k)
			}
		}
		maxOps := b.MaxOps
		if maxOps == 0 {
			maxOps = 40
		}
		n := rapid.IntRange(5, maxOps).Draw(t, "nops")
		cancelled := false
		for i := 0; i < n; i++ {
			k := rapid.SampledFrom(kinds).Draw(t, "op")
			op := Op{Kind: k}
			switch k {
			case OpPush, OpSpawnPush:
				op.Lane = rapid.IntRange(0, p.LaneSize-1).Draw(t, "lane")
				if (b.PinFirst || b.LaneFocus) && rapid.IntRange(0, 3).Draw(t, "toFocus") > 0 {
					op.Lane = focus
				} else if p.LaneSize > 4 && rapid.IntRange(0, 2).Draw(t, "highLane") > 0 {
					// wide lanes: keep most of the traffic on the two highest-numbered lanes so that they get busy and queue up
					op.Lane = p.LaneSize - 1 - rapid.IntRange(0, 1).Draw(t, "fromTop")
				}
				op.Task = genTask(t, b)
			case OpOpen:
				op.Gate = rapid.IntRange(0, 3).Draw(t, "gate")
			case OpAdvance:
				op.D = rapid.SampledFrom([]time.Duration{time.Millisecond, 60 * time.Millisecond, time.Second, 3 * time.Second}).Draw(t, "d")
			case OpPollers:
				op.K = rapid.IntRange(1, 4).Draw(t, "k")
			case OpFreeze:
				op.Point = rapid.SampledFrom(Points).Draw(t, "point")
				op.Lane = rapid.IntRange(0, p.LaneSize-1).Draw(t, "lane")
				if b.LaneFocus {
					op.Lane = focus
				}
			case OpCancel:
				if cancelled || !b.Cancel {
					op.Kind = OpSettle
				}
				cancelled = true
			}
			p.Ops = append(p.Ops, op)
		}
		return p
	})
}

// CancelTemplate builds the enumerated fault-injection programs of C07: a lane goroutine (or a
// producer) is parked at a chosen protocol step in a chosen lane state, then the cancel lands.
type CancelTemplate struct {
	Point      string
	OwnBusy    bool
	BufferFull bool
	ByDeadline bool
	LateGates  bool
	OthersBusy bool
}

func (c CancelTemplate) String() string {
	return fmt.Sprintf("cancel@%s ownBusy=%v othersBusy=%v bufferNonEmpty=%v byDeadline=%v lateGates=%v", c.Point, c.OwnBusy, c.OthersBusy, c.BufferFull, c.ByDeadline, c.LateGates)
}

func AllCancelTemplates() []CancelTemplate {
	var out []CancelTemplate
	for _, pt := range Points {
		for m := 0; m < 32; m++ {
			out = append(out, CancelTemplate{Point: pt, OwnBusy: m&1 != 0, BufferFull: m&2 != 0, ByDeadline: m&4 != 0, LateGates: m&8 != 0, OthersBusy: m&16 != 0})
		}
	}
	return out
}

// Program renders the template; load is inserted before the freeze is armed.
func (c CancelTemplate) Program(laneSize, queueSize int, load []Op) Program {
	p := Program{LaneSize: laneSize, QueueSize: queueSize, Timeout: 100 * time.Millisecond, LateGates: c.LateGates}
	if c.ByDeadline {
		p.Deadline = 20 * time.Second
	}
	ops := []Op{{Kind: OpSettle}}
	ops = append(ops, load...)
	ops = append(ops, Op{Kind: OpSettle})
	if c.OthersBusy {
		for l := 1; l < laneSize; l++ {
			ops = append(ops, Op{Kind: OpPush, Lane: l, Task: TaskSpec{Kind: TGated, Gate: 20 + l}}, Op{Kind: OpSettle})
		}
	}
	if c.OwnBusy {
		ops = append(ops, Op{Kind: OpPush, Lane: 0, Task: TaskSpec{Kind: TGated, Gate: 20}}, Op{Kind: OpSettle})
	}
	ops = append(ops, Op{Kind: OpFreeze, Point: c.Point, Lane: 0})
	ops = append(ops, Op{Kind: OpSpawnPush, Lane: 0, Task: TaskSpec{Kind: TInstant}})
	if c.BufferFull {
		for i := 0; i < queueSize+1; i++ {
			ops = append(ops, Op{Kind: OpSpawnPush, Lane: 0, Task: TaskSpec{Kind: TInstant}})
		}
	}
	ops = append(ops, Op{Kind: OpSettle})
	if c.ByDeadline {
		ops = append(ops, Op{Kind: OpAdvance, D: 30 * time.Second}) // the deadline expires while the goroutine is parked
	} else {
		ops = append(ops, Op{Kind: OpCancel})
	}
	ops = append(ops, Op{Kind: OpSpawnPush, Lane: 0, Task: TaskSpec{Kind: TInstant}}, Op{Kind: OpPush, Lane: 0, Task: TaskSpec{Kind: TInstant}}, Op{Kind: OpSettle}, Op{Kind: OpThaw}, Op{Kind: OpSettle})
	p.Ops = ops
	return p
}

// RunInBubble executes the program inside a synctest bubble. bubbleFailure is non-empty when the
// bubble itself failed: a deadlock (some goroutine can never continue, e.g. Wait() never returns) or
// goroutines left behind when the program ended.
func RunInBubble(t *rapid.T, p Program) (res Result, bubbleFailure string) {
	defer func() {
		if r := recover(); r != nil {
			msg := fmt.Sprint(r)
			if e, ok := r.(error); ok {
				msg = e.Error()
			}
			if strings.Contains(msg, "deadlock") || strings.Contains(msg, "blocked goroutines remain") {
				bubbleFailure = msg
				return
			}
			panic(r)
		}
	}()
	rt.Describe(p.String())
	if !p.Long {
		// (a case of a few dozen steps takes milliseconds; programs that warm a lane up with thousands of tasks are
		// left out: on a loaded machine they may run for a while, with goroutines that are legitimately busy)
		rt.InBubble(true)
		defer rt.InBubble(false)
	}
	rapid.SyncTest(t, func(t *rapid.T) {
		res = Run(p)
	})
	return res, ""
}

// Own filters the violations of one property.
func Own(res Result, prop string) []string {
	var out []string
	for _, v := range res.Violations {
		if v.Prop == prop {
			out = append(out, v.Msg)
		}
	}
	return out
}
