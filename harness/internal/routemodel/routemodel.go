// Package routemodel is the reference router used by C04, C05 and C15: candidate-set filtering over
// the flat list of registered routes, written from the property text (no trie).
package routemodel

import (
	"strings"
)

const (
	Lit = iota
	Param
	Any
)

type Elem struct {
	Kind int
	Text string // literal text or parameter name
}

type Route struct {
	Pattern string
	Method  string
	Elems   []Elem
	Names   []string // parameter names in order; "/:any" stands for the trailing *
}

const AnyName = "/:any"

var Methods = []string{"GET", "HEAD", "POST", "PUT", "PATCH", "DELETE", "CONNECT", "OPTIONS", "TRACE"}

func KnownMethod(m string) bool {
	if m == "*" {
		return true
	}
	for _, k := range Methods {
		if k == m {
			return true
		}
	}
	return false
}

// Parse splits a pattern that starts with '/' into elements. ok is false when the pattern is one
// the documentation says registration rejects (empty or duplicate parameter name).
func Parse(pattern string) (elems []Elem, names []string, ok bool) {
	if pattern == "" {
		return nil, nil, true
	}
	for _, frag := range strings.Split(pattern[1:], "/") {
		switch {
		case frag == "":
		case frag == "*":
			elems = append(elems, Elem{Any, ""})
			names = append(names, AnyName)
			return elems, names, true
		case frag[0] == ':':
			name := frag[1:]
			if name == "" {
				return nil, nil, false
			}
			for _, n := range names {
				if n == name {
					return nil, nil, false
				}
			}
			elems = append(elems, Elem{Param, name})
			names = append(names, name)
		default:
			elems = append(elems, Elem{Lit, frag})
		}
	}
	return elems, names, true
}

func NewRoute(pattern, method string) (Route, bool) {
	e, n, ok := Parse(pattern)
	return Route{Pattern: pattern, Method: method, Elems: e, Names: n}, ok && KnownMethod(method)
}

// SameShape reports whether two routes occupy the same place in the table (a duplicate registration).
func SameShape(a, b Route) bool {
	if a.Method != b.Method || len(a.Elems) != len(b.Elems) {
		return false
	}
	for i := range a.Elems {
		if a.Elems[i].Kind != b.Elems[i].Kind {
			return false
		}
		if a.Elems[i].Kind == Lit && a.Elems[i].Text != b.Elems[i].Text {
			return false
		}
	}
	return true
}

func pickMethod(routes []Route, cands []int, method string) int {
	for _, c := range cands {
		if routes[c].Method == method && method != "*" {
			return c
		}
	}
	// a request whose method is literally "*" is not one of the nine methods; it can only meet the '*' routes
	for _, c := range cands {
		if routes[c].Method == "*" {
			return c
		}
	}
	return -1
}

// Decision classes exercised by a lookup (for evidence labels).
type Trace struct {
	LitOverParam, ParamOverAny, LitOverAny bool
	ExactOverStar                          bool
	SkippedEmpty, LastEmpty                bool
	RootSpecial, RootFallThrough           bool
	AnyTail                                bool
}

// Select returns the index of the route the documented walk selects for (method, path), or -1 for
// the no-route handler, together with the parameter bindings by name. path must be non-empty.
func Select(routes []Route, method, path string) (int, map[string]string, Trace) {
	var tr Trace
	if path == "" {
		return -1, map[string]string{}, tr
	}
	all := make([]int, len(routes))
	for i := range routes {
		all[i] = i
	}
	if len(path) == 1 {
		var roots []int
		for _, c := range all {
			if len(routes[c].Elems) == 0 {
				roots = append(roots, c)
			}
		}
		if i := pickMethod(routes, roots, method); i >= 0 {
			tr.RootSpecial = true
			return i, map[string]string{}, tr
		}
		tr.RootFallThrough = len(roots) > 0
	}
	segs := strings.Split(path[1:], "/")
	cands := all
	pos := 0
	var vals []string
	offset := 1
	for i, seg := range segs {
		last := i == len(segs)-1
		start := offset
		offset += len(seg) + 1
		if seg == "" && !last {
			tr.SkippedEmpty = true
			continue
		}
		if seg == "" {
			tr.LastEmpty = true
		}
		var lit, par, any []int
		for _, c := range cands {
			if len(routes[c].Elems) <= pos {
				continue
			}
			e := routes[c].Elems[pos]
			switch {
			case e.Kind == Lit && e.Text == seg:
				lit = append(lit, c)
			case e.Kind == Param:
				par = append(par, c)
			case e.Kind == Any:
				any = append(any, c)
			}
		}
		if len(lit) > 0 {
			tr.LitOverParam = tr.LitOverParam || len(par) > 0
			tr.LitOverAny = tr.LitOverAny || len(any) > 0
			cands = lit
			pos++
			continue
		}
		if len(par) > 0 {
			tr.ParamOverAny = tr.ParamOverAny || len(any) > 0
			cands = par
			vals = append(vals, seg)
			pos++
			continue
		}
		if len(any) > 0 {
			cands = any
			vals = append(vals, path[start:])
			pos++
			tr.AnyTail = !last
			break
		}
		return -1, map[string]string{}, tr
	}
	var final []int
	for _, c := range cands {
		if len(routes[c].Elems) == pos {
			final = append(final, c)
		}
	}
	sel := pickMethod(routes, final, method)
	if sel < 0 {
		return -1, map[string]string{}, tr
	}
	if routes[sel].Method == method {
		for _, c := range final {
			if routes[c].Method == "*" {
				tr.ExactOverStar = true
			}
		}
	}
	bind := map[string]string{}
	for i, n := range routes[sel].Names {
		bind[n] = vals[i]
	}
	return sel, bind, tr
}

func (t Trace) Decision() bool {
	return t.LitOverParam || t.ParamOverAny || t.LitOverAny || t.ExactOverStar || t.SkippedEmpty || t.LastEmpty || t.RootSpecial || t.RootFallThrough
}
