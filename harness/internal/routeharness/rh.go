// Package routeharness builds real httpd.Mux instances whose handlers record what they observe.
package routeharness

import (
	"fmt"
	"net/http"
	"net/url"
	"sort"
	"strings"

	"github.com/whoisnian/glb/httpd"

	rm "verif/harness/internal/routemodel"
)

// Obs is what the handlers of one Mux observed for the current request.
type Obs struct {
	Calls   int
	Route   int // index into the table, -1 = no-route handler
	IPath   string
	IMethod string
	Params  map[string]string // RouteParam(name) for every name of the table
	Any     string            // RouteParamAny()
	Status  int               // W.Status on entry
	ID      string
}

func (o Obs) String() string {
	keys := make([]string, 0, len(o.Params))
	for k := range o.Params {
		keys = append(keys, k)
	}
	sort.Strings(keys)
	var sb strings.Builder
	for _, k := range keys {
		fmt.Fprintf(&sb, " %s=%q", k, o.Params[k])
	}
	return fmt.Sprintf("calls=%d route=%d I={%q %q} any=%q params:%s", o.Calls, o.Route, o.IPath, o.IMethod, o.Any, sb.String())
}

type Table struct {
	Mux    *httpd.Mux
	Routes []rm.Route
	Names  []string // every parameter name of the table (without the * pseudo name) + one unused name
	Cur    *Obs

	// an internal forward: the handler of the next request dispatches Forward on the same Mux (a nested ServeHTTP
	// call, as a handler does that rewrites and re-dispatches) before it looks at its own Store
	noRouteGen int // how often the no-route handler has been replaced

	// AbortNext makes the handler of the next request panic with http.ErrAbortHandler after it has looked at its Store
	// (the documented way to abort a request); the default relay lets it escape ServeHTTP, as net/http expects
	AbortNext bool

	Forward *http.Request
	Inner   Obs
	InnerP  any
}

type nullWriter struct{ h http.Header }

func (w *nullWriter) Header() http.Header {
	if w.h == nil {
		w.h = http.Header{}
	}
	return w.h
}
func (w *nullWriter) Write(b []byte) (int, error) { return len(b), nil }
func (w *nullWriter) WriteHeader(int)             {}

// StaleNoRoute is the Route value observed when a no-route handler that has since been replaced was invoked.
const StaleNoRoute = -3

// ReplaceNoRoute installs a new no-route handler (HandleNoRoute may be called at any time): from now on unmatched
// requests must reach this one.
func (t *Table) ReplaceNoRoute() {
	t.noRouteGen++
	t.Mux.HandleNoRoute(t.recordGen(-1, t.noRouteGen))
}

func (t *Table) record(idx int) httpd.HandlerFunc { return t.recordGen(idx, 0) }

func (t *Table) recordGen(idx int, gen int) httpd.HandlerFunc {
	return func(s *httpd.Store) {
		if idx == -1 && gen != t.noRouteGen {
			idx = StaleNoRoute
		}
		o := t.Cur
		if fw := t.Forward; fw != nil {
			t.Forward = nil
			t.Cur = &Obs{Route: -2}
			func() {
				defer func() { t.InnerP = recover() }()
				t.Mux.ServeHTTP(&nullWriter{}, fw)
			}()
			t.Inner = *t.Cur
			t.Cur = o
		}
		o.Calls++
		o.Route = idx
		if s.I != nil {
			o.IPath, o.IMethod = s.I.Path, s.I.Method
		}
		o.Params = make(map[string]string, len(t.Names))
		for _, n := range t.Names {
			o.Params[n] = strings.Clone(s.RouteParam(n))
		}
		o.Any = strings.Clone(s.RouteParamAny())
		o.Status = s.W.Status
		o.ID = strings.Clone(s.GetID())
		if t.AbortNext {
			t.AbortNext = false
			panic(http.ErrAbortHandler)
		}
	}
}

// TryRegister reports whether Handle(pattern, method) panics on a Mux that already holds routes.
func TryRegister(routes []rm.Route, pattern, method string) (ok bool) {
	m := httpd.NewMux()
	for _, r := range routes {
		m.Handle(r.Pattern, r.Method, func(*httpd.Store) {})
	}
	defer func() {
		if recover() != nil {
			ok = false
		}
	}()
	m.Handle(pattern, method, func(*httpd.Store) {})
	return true
}

// NewTable registers the given routes (all must be accepted) on a fresh Mux.
func NewTable(routes []rm.Route) *Table {
	t := &Table{Mux: httpd.NewMux(), Cur: &Obs{}}
	for _, r := range routes {
		t.Add(r)
	}
	t.Mux.HandleNoRoute(t.record(-1))
	return t
}

func (t *Table) Add(r rm.Route) {
	idx := len(t.Routes)
	t.Routes = append(t.Routes, r)
	t.Mux.Handle(r.Pattern, r.Method, t.record(idx))
	t.Names = t.Names[:0]
	seen := map[string]bool{}
	for _, r := range t.Routes {
		for _, n := range r.Names {
			if n != rm.AnyName && !seen[n] {
				seen[n] = true
				t.Names = append(t.Names, n)
			}
		}
	}
	t.Names = append(t.Names, "zz-unused")
}

// Serve dispatches one request and returns what was observed; a panic escaping ServeHTTP is returned.
func (t *Table) Serve(method, path string) (o Obs, panicked any) {
	return t.ServeRaw(method, path, 0)
}

// RawPathFor spells path the way a client may: the bytes selected by mask are percent-encoded (so the result decodes
// back to path). net/http keeps such a spelling in URL.RawPath next to the decoded URL.Path.
func RawPathFor(path string, mask uint64) string {
	if mask == 0 {
		return ""
	}
	var sb strings.Builder
	for i := 0; i < len(path); i++ {
		if mask>>(uint(i)%64)&1 == 1 && (i > 0 || path[i] != '/') {
			fmt.Fprintf(&sb, "%%%02X", path[i])
		} else {
			sb.WriteByte(path[i])
		}
	}
	return sb.String()
}

// ServeRaw is Serve with URL.RawPath set to an alternative spelling of path (rawMask selects the encoded bytes).
func (t *Table) ServeRaw(method, path string, rawMask uint64) (o Obs, panicked any) {
	t.Cur = &Obs{Route: -2}
	u := &url.URL{Path: path, RawPath: RawPathFor(path, rawMask)}
	reqURI := path
	if u.RawPath != "" {
		reqURI = u.RawPath
	}
	req := &http.Request{Method: method, URL: u, Header: http.Header{}, RequestURI: reqURI, RemoteAddr: "192.0.2.1:1234"}
	func() {
		defer func() { panicked = recover() }()
		t.Mux.ServeHTTP(&nullWriter{}, req)
	}()
	return *t.Cur, panicked
}

func newRequest(method, path string, rawMask uint64) *http.Request {
	u := &url.URL{Path: path, RawPath: RawPathFor(path, rawMask)}
	reqURI := path
	if u.RawPath != "" {
		reqURI = u.RawPath
	}
	return &http.Request{Method: method, URL: u, Header: http.Header{}, RequestURI: reqURI, RemoteAddr: "192.0.2.1:1234"}
}

// ServeForwarding serves the outer request; its handler first dispatches the inner request on the same Mux and only
// then observes its own Store. Both observations are returned.
func (t *Table) ServeForwarding(method, path, innerMethod, innerPath string) (outer, inner Obs, outerPanic, innerPanic any) {
	t.Cur = &Obs{Route: -2}
	t.Inner, t.InnerP = Obs{Route: -2}, nil
	t.Forward = newRequest(innerMethod, innerPath, 0)
	func() {
		defer func() { outerPanic = recover() }()
		t.Mux.ServeHTTP(&nullWriter{}, newRequest(method, path, 0))
	}()
	t.Forward = nil
	return *t.Cur, t.Inner, outerPanic, t.InnerP
}

// Expect renders the model's expectation as an Obs.
func Expect(routes []rm.Route, names []string, method, path string) (Obs, rm.Trace) {
	sel, bind, tr := rm.Select(routes, method, path)
	e := Obs{Calls: 1, Route: sel, Params: map[string]string{}}
	for _, n := range names {
		e.Params[n] = bind[n]
	}
	e.Any = bind[rm.AnyName]
	if sel >= 0 {
		e.IPath, e.IMethod = routes[sel].Pattern, routes[sel].Method
	}
	return e, tr
}

// Diff compares an observation with the expectation (dispatch-related fields only).
func Diff(got, want Obs) string {
	if got.Calls != want.Calls {
		return fmt.Sprintf("handler invocations = %d, want %d", got.Calls, want.Calls)
	}
	if got.Route == StaleNoRoute {
		return fmt.Sprintf("a no-route handler that had been replaced by a later HandleNoRoute call was invoked (want route index %d)", want.Route)
	}
	if got.Route != want.Route {
		return fmt.Sprintf("selected route index = %d, want %d", got.Route, want.Route)
	}
	if want.Route >= 0 && (got.IPath != want.IPath || got.IMethod != want.IMethod) {
		return fmt.Sprintf("Store.I = {%q %q}, want {%q %q}", got.IPath, got.IMethod, want.IPath, want.IMethod)
	}
	if got.Any != want.Any {
		return fmt.Sprintf("RouteParamAny() = %q, want %q", got.Any, want.Any)
	}
	for n, w := range want.Params {
		if got.Params[n] != w {
			return fmt.Sprintf("RouteParam(%q) = %q, want %q", n, got.Params[n], w)
		}
	}
	return ""
}

func RenderTable(routes []rm.Route) string {
	var parts []string
	for _, r := range routes {
		parts = append(parts, r.Method+" "+r.Pattern)
	}
	return "[" + strings.Join(parts, ", ") + "]"
}

// AttemptRejected performs a registration that is expected to be rejected (it panics) on this very Mux, the way a
// program does that recovers from the panic and carries on: it must not change how the routes that were registered
// successfully are served. Returns false if the registration did not panic after all.
func (t *Table) AttemptRejected(pattern, method string) (panicked bool) {
	defer func() {
		if recover() != nil {
			panicked = true
		}
	}()
	t.Mux.Handle(pattern, method, func(*httpd.Store) {})
	return false
}
