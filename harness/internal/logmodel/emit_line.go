package logmodel

import (
	"context"
	"log/slog"
	"runtime"

	"github.com/whoisnian/glb/logger"
)

// The functions below log from call sites whose recorded source position carries an awkward file name (as
// generated code does through //line directives, or a checkout in a directory with a space in its name): the
// handlers must quote / escape the source like any other value. Each function reads its own position with
// runtime.Caller on the line just before the logging call, so the expectation follows whatever the toolchain records.

func emitOddSource(l *logger.Logger, which int, level slog.Level, msg string, attrs []slog.Attr) (string, int) {
	ctx := context.Background()
	switch which % 6 {
	case 0:
//line My Project/ma in.go:10
		_, f, ln, _ := runtime.Caller(0)
		l.LogAttrs(ctx, level, msg, attrs...)
		return lastTwo(f), ln + 1
	case 1:
//line gen/say"hi.go:7
		_, f, ln, _ := runtime.Caller(0)
		l.LogAttrs(ctx, level, msg, attrs...)
		return lastTwo(f), ln + 1
	case 2:
//line gen/x.go:1 level=ERROR msg=pwned.go:41
		_, f, ln, _ := runtime.Caller(0)
		l.LogAttrs(ctx, level, msg, attrs...)
		return lastTwo(f), ln + 1
	case 3:
//line back\slash/k=v.go:123456
		_, f, ln, _ := runtime.Caller(0)
		l.LogAttrs(ctx, level, msg, attrs...)
		return lastTwo(f), ln + 1
	case 4:
//line nodir.go:3
		_, f, ln, _ := runtime.Caller(0)
		l.LogAttrs(ctx, level, msg, attrs...)
		return lastTwo(f), ln + 1
	default:
//line /abs/dé p/ü{}[],.go:99
		_, f, ln, _ := runtime.Caller(0)
		l.LogAttrs(ctx, level, msg, attrs...)
		return lastTwo(f), ln + 1
	}
}
