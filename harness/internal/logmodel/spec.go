// Package logmodel holds what the logger checks (C01, C02, C03, C13, C15) share: a serialisable
// attribute-tree spec with rapid generators, the conversion into real slog attributes, and
// independent expectation models for the JSON and Text handlers.
package logmodel

import (
	"encoding/json"
	"errors"
	"fmt"
	"io"
	"log/slog"
	"math"
	"strings"
	"time"

	"github.com/whoisnian/glb/logger"
	"pgregory.net/rapid"
)

type Kind int

const (
	KString Kind = iota
	KInt64
	KUint64
	KFloat
	KBool
	KDuration
	KTime
	KError
	KBytes
	KMap
	KStruct
	KNilPtr
	KNil
	KMarshalOK
	KMarshalErr
	KMarshalGarbage
	KRawValid
	KRawInvalid
	KRawNil
	KAnsi
	KTextOK
	KTextErr
	KUnencodableMap
	KErrMarshaler // an error that is also a json.Marshaler (the "API problem" shape): its JSON form or its Error() text
	KGroup
	numKinds
)

var kindNames = [...]string{"string", "int64", "uint64", "float", "bool", "duration", "time", "error", "bytes", "map", "struct", "nilptr", "nil", "marshalOK", "marshalErr", "marshalGarbage",
	"rawValid", "rawInvalid", "rawNil", "ansi", "textOK", "textErr", "unencodableMap", "errorAndMarshaler", "group"}

func (k Kind) String() string { return kindNames[k] }

// Node is one attribute of the tree.
type Node struct {
	Key     string
	Kind    Kind
	S       string
	I       int64
	U       uint64
	F       float64
	B       bool
	T       time.Time
	Members []Node
	Valuer  int  // number of LogValuer wrappers around the value (0..2)
	Nested  bool // the LogValuer wrappers log records of their own while they are being resolved
}

// ---- value types used by the spec ----

type okMarshaler struct{ raw string }

func (m okMarshaler) MarshalJSON() ([]byte, error) { return []byte(m.raw), nil }

type errMarshaler struct{ msg string }

// errAndMarshaler is an error value that also knows its JSON form and its text form (the statements list error,
// json.Marshaler and TextMarshaler as value kinds and do not rank them for a value that is several of them).
type errAndMarshaler struct{ raw string }

func (m errAndMarshaler) MarshalJSON() ([]byte, error) { return []byte(m.raw), nil }
func (m errAndMarshaler) MarshalText() ([]byte, error) { return []byte("T:" + m.raw), nil }
func (m errAndMarshaler) Error() string                { return "E:" + m.raw }

func (m errMarshaler) MarshalJSON() ([]byte, error) { return nil, errors.New(m.msg) }

type okText struct{ s string }

func (m okText) MarshalText() ([]byte, error) { return []byte(m.s), nil }

type errText struct{ msg string }

func (m errText) MarshalText() ([]byte, error) { return nil, errors.New(m.msg) }

type sampleStruct struct {
	A int
	B string `json:"b"`
	C []float64
	d int
}

type valuer struct{ v slog.Value }

func (v valuer) LogValue() slog.Value { return v.v }

// loggingValuer is a LogValuer that itself logs while it is being resolved (a value that reports a cache miss, a lazy
// lookup that warns): a record is written through each of the three handlers, into a sink of their own, in the middle
// of the formatting of the outer record. The outer line must not notice.
type loggingValuer struct{ v slog.Value }

var nestedLoggers = func() []*logger.Logger {
	opts := logger.NewOptions(logger.LevelDebug, false, true)
	return []*logger.Logger{
		logger.New(logger.NewNanoHandler(io.Discard, opts)),
		logger.New(logger.NewTextHandler(io.Discard, opts)).WithGroup("nested").With("in", "LogValue"),
		logger.New(logger.NewJsonHandler(io.Discard, opts)).With("in", "LogValue"),
	}
}()

func (v loggingValuer) LogValue() slog.Value {
	for _, l := range nestedLoggers {
		l.Warn("a record logged while a value of another record is being resolved", "k", "v with spaces", "n", 42)
	}
	return v.v
}

// GoValue returns the Go value a KindAny node carries (nil for the scalar kinds).
func (n Node) GoValue() any {
	switch n.Kind {
	case KError:
		return errors.New(n.S)
	case KBytes:
		return []byte(n.S)
	case KMap:
		return map[string]any{"k": n.S, "n": n.I, "nested": map[string]any{"b": n.B}}
	case KStruct:
		return sampleStruct{A: int(n.I), B: n.S, C: []float64{1.5, float64(n.I)}}
	case KNilPtr:
		return (*sampleStruct)(nil)
	case KNil:
		return nil
	case KMarshalOK:
		return okMarshaler{n.S}
	case KMarshalErr:
		return errMarshaler{n.S}
	case KMarshalGarbage:
		return okMarshaler{n.S}
	case KRawValid, KRawInvalid:
		return json.RawMessage(n.S)
	case KRawNil:
		return json.RawMessage(nil)
	case KAnsi:
		return logger.AnsiString{Prefix: "\x1b[34m", Value: n.S}
	case KTextOK:
		return okText{n.S}
	case KTextErr:
		return errText{n.S}
	case KErrMarshaler:
		return errAndMarshaler{n.S}
	case KUnencodableMap:
		return map[string]any{"f": func() {}}
	}
	return nil
}

// Value builds the slog.Value (without LogValuer wrappers).
func (n Node) baseValue() slog.Value {
	switch n.Kind {
	case KString:
		return slog.StringValue(n.S)
	case KInt64:
		return slog.Int64Value(n.I)
	case KUint64:
		return slog.Uint64Value(n.U)
	case KFloat:
		return slog.Float64Value(n.F)
	case KBool:
		return slog.BoolValue(n.B)
	case KDuration:
		return slog.DurationValue(time.Duration(n.I))
	case KTime:
		return slog.TimeValue(n.T)
	case KGroup:
		attrs := make([]slog.Attr, len(n.Members))
		for i, m := range n.Members {
			attrs[i] = m.Attr()
		}
		return slog.GroupValue(attrs...)
	default:
		return slog.AnyValue(n.GoValue())
	}
}

func (n Node) Value() slog.Value {
	v := n.baseValue()
	for i := 0; i < n.Valuer; i++ {
		if n.Nested {
			v = slog.AnyValue(loggingValuer{v})
		} else {
			v = slog.AnyValue(valuer{v})
		}
	}
	return v
}

func (n Node) Attr() slog.Attr { return slog.Attr{Key: n.Key, Value: n.Value()} }

func Attrs(ns []Node) []slog.Attr {
	out := make([]slog.Attr, len(ns))
	for i, n := range ns {
		out[i] = n.Attr()
	}
	return out
}

// Args renders nodes as the ...any form accepted by Logger.Log / With: a mix of Attr values and key, value pairs.
func Args(ns []Node, pairs bool) []any {
	var out []any
	for _, n := range ns {
		if pairs && n.Kind != KGroup && n.Valuer == 0 {
			a := n.Attr()
			out = append(out, a.Key, a.Value.Any())
			_ = a
		} else {
			out = append(out, n.Attr())
		}
	}
	return out
}

// RecursivelyEmpty reports whether the node is a group without any leaf below it.
func (n Node) RecursivelyEmpty() bool {
	if n.Kind != KGroup {
		return false
	}
	for _, m := range n.Members {
		if !m.RecursivelyEmpty() {
			return false
		}
	}
	return true
}

func (n Node) Render() string {
	var sb strings.Builder
	n.render(&sb)
	return sb.String()
}

func (n Node) render(sb *strings.Builder) {
	for i := 0; i < n.Valuer; i++ {
		if n.Nested {
			sb.WriteString("LV-that-logs(")
		} else {
			sb.WriteString("LV(")
		}
	}
	fmt.Fprintf(sb, "%q:", n.Key)
	switch n.Kind {
	case KGroup:
		sb.WriteString("{")
		for i, m := range n.Members {
			if i > 0 {
				sb.WriteString(", ")
			}
			m.render(sb)
		}
		sb.WriteString("}")
	case KInt64, KDuration:
		fmt.Fprintf(sb, "%s(%d)", n.Kind, n.I)
	case KUint64:
		fmt.Fprintf(sb, "uint64(%d)", n.U)
	case KFloat:
		fmt.Fprintf(sb, "float(%v)", n.F)
	case KBool:
		fmt.Fprintf(sb, "bool(%v)", n.B)
	case KTime:
		fmt.Fprintf(sb, "time(%s)", n.T.Format(time.RFC3339Nano))
	default:
		s := n.S
		if len(s) > 60 {
			s = fmt.Sprintf("%s…(%d bytes)", s[:60], len(s))
		}
		fmt.Fprintf(sb, "%s(%q)", n.Kind, s)
	}
	for i := 0; i < n.Valuer; i++ {
		sb.WriteString(")")
	}
}

func RenderNodes(ns []Node) string {
	parts := make([]string, len(ns))
	for i, n := range ns {
		parts[i] = n.Render()
	}
	return "[" + strings.Join(parts, ", ") + "]"
}

// ---- generators ----

var hostilePieces = []string{
	"", "a", "msg", "key", " ", "  ", "=", "\"", "\\", "\\\"", "'", "`", ".", ",", ":", "{", "}", "[", "]", "<", ">", "&", "/", "%", "#", "~",
	"\x00", "\x01", "\x07", "\x08", "\t", "\n", "\r", "\x0b", "\x0c", "\x1b", "\x1f", "\x7f", "\x1b[31m",
	"\u0085", "\u00a0", "\u2000", "\u2028", "\u2029", "\u3000", "\u200b", "\ufeff", "\ufffd", "\u00ad", "\u1680", "\u202f", "é", "世界", "😀", "\U0010ffff",
	"\x80", "\xbf", "\xc3", "\xe2\x82", "\xf0\x9f\x98", "\xc0\xaf", "\xed\xa0\x80", "\xf4\x90\x80\x80", "\xff", "\xfe\xff",
	"a=b", "a b", "k=\"v\"", "level=ERROR", "time=x", "\n{\"injected\":true}", "\\u0000", "\\n",
	// characters an implementation may take for unused and use itself as a marker between two passes
	"\uffff", "\ufffe", "\ufdd0", "\ue000", "\uf8ff", "\x1a", "\x1e", "\x02", "\x03",
}

// HostileString draws strings biased towards the escaping boundary cases, length 0..~40 pieces,
// occasionally very long (beyond the 16 KiB pooled-buffer limit).
func HostileString() *rapid.Generator[string] {
	return rapid.Custom(func(t *rapid.T) string {
		switch c := rapid.IntRange(0, 99).Draw(t, "strclass"); {
		case c < 55:
			n := rapid.IntRange(0, 6).Draw(t, "npieces")
			var sb strings.Builder
			for i := 0; i < n; i++ {
				sb.WriteString(rapid.SampledFrom(hostilePieces).Draw(t, "piece"))
			}
			return sb.String()
		case c < 75:
			return string(rapid.SliceOfN(rapid.Byte(), 0, 12).Draw(t, "rawbytes"))
		case c < 90:
			return rapid.StringN(0, 12, -1).Draw(t, "unicode")
		case c < 94:
			return rapid.SampledFrom([]string{"user", "id", "path", "method", "a", "b", "k", "v", "err", "count"}).Draw(t, "plain")
		case c < 98:
			// a long harmless run with one hostile piece somewhere behind it (decisions taken on a prefix must fail)
			n := rapid.SampledFrom([]int{15, 16, 31, 32, 33, 63, 64, 65, 127, 128, 255, 256, 1023, 1024, 1025, 4096}).Draw(t, "safeRun")
			return strings.Repeat("x", n) + rapid.SampledFrom(hostilePieces).Draw(t, "piece") + strings.Repeat("y", rapid.IntRange(0, 3).Draw(t, "tail"))
		default:
			unit := rapid.SampledFrom([]string{"x", "\"", "\\", "\n", "é", "\xff", " ", "a=b "}).Draw(t, "unit")
			size := rapid.SampledFrom([]int{1000, 17000, 70000}).Draw(t, "size")
			return strings.Repeat(unit, size/len(unit)+1)
		}
	})
}

// SmallString is for places where huge strings only slow things down (keys of deep trees).
func SmallString() *rapid.Generator[string] {
	return rapid.Custom(func(t *rapid.T) string {
		if rapid.IntRange(0, 39).Draw(t, "mediumLong") == 0 {
			// now and then a name long enough to outgrow small pooled buffers (32, 64, 128 bytes)
			n := rapid.SampledFrom([]int{31, 33, 63, 65, 70, 129}).Draw(t, "len")
			return strings.Repeat(rapid.SampledFrom([]string{"k", "ab", "seg-"}).Draw(t, "unit"), n)[:n] + rapid.SampledFrom([]string{"", " ", "=", "é"}).Draw(t, "tail")
		}
		n := rapid.IntRange(0, 3).Draw(t, "npieces")
		var sb strings.Builder
		for i := 0; i < n; i++ {
			sb.WriteString(rapid.SampledFrom(hostilePieces).Draw(t, "piece"))
		}
		return sb.String()
	})
}

func genTime() *rapid.Generator[time.Time] {
	return rapid.Custom(func(t *rapid.T) time.Time {
		year := rapid.OneOf(rapid.SampledFrom([]int{2, 1677, 1678, 1969, 1970, 2023, 2262, 2263, 9998}), rapid.IntRange(2, 9998)).Draw(t, "year")
		// fractions: none, every count of trailing zeros (formats that trim them, and formats that must not), anything
		nsec := rapid.OneOf(rapid.SampledFrom([]int{0, 1, 999999999, 500000000, 123456789, 120000000, 10, 100, 1000, 10000, 100000, 1000000, 10000000, 100000000,
			999999000, 999000000, 1001, 999999, 1000001, 99999999}), rapid.IntRange(0, 999999999)).Draw(t, "nsec")
		// every whole-minute offset a zone may have, among them the ones west of Greenwich by less than an hour (-00:30:
		// the sign is not that of the hour part) and the half- and quarter-hour zones
		offMin := rapid.OneOf(rapid.SampledFrom([]int{0, 0, 60, -60, 330, 345, -720, 840, 1, -1, -30, -59, 30, -210, -570, 765, -61}), rapid.IntRange(-14*60, 14*60)).Draw(t, "zoneMinutes")
		loc := time.UTC
		if offMin != 0 || rapid.Bool().Draw(t, "fixedZone") {
			loc = time.FixedZone("", offMin*60)
		}
		month := time.Month(rapid.IntRange(1, 12).Draw(t, "month"))
		lastDay := time.Date(year, month+1, 0, 0, 0, 0, 0, time.UTC).Day() // 28..31; the 29th of February in leap years
		return time.Date(year, month, rapid.OneOf(rapid.Just(lastDay), rapid.IntRange(1, lastDay)).Draw(t, "day"),
			rapid.IntRange(0, 23).Draw(t, "hour"), rapid.IntRange(0, 59).Draw(t, "min"), rapid.IntRange(0, 59).Draw(t, "sec"), nsec, loc)
	})
}

// BoundaryInt64 draws integers at the seams of number formatting: a power of ten or of two, give or take one, with
// either sign (where a digit count changes, where a table ends, where a fast path hands over).
func BoundaryInt64() *rapid.Generator[int64] {
	return rapid.Custom(func(t *rapid.T) int64 {
		var v int64 = 1
		if rapid.Bool().Draw(t, "powerOfTen") {
			for i, k := 0, rapid.IntRange(0, 18).Draw(t, "exp10"); i < k; i++ {
				v *= 10
			}
		} else {
			v <<= uint(rapid.IntRange(0, 62).Draw(t, "exp2"))
		}
		v += int64(rapid.IntRange(-1, 1).Draw(t, "offBy"))
		if rapid.Bool().Draw(t, "negative") {
			v = -v
		}
		return v
	})
}

type GenOpts struct {
	TextKinds bool // include TextMarshaler kinds (C13)
	MaxDepth  int
	Huge      bool // allow very long strings
}

func genLeaf(o GenOpts) *rapid.Generator[Node] {
	kinds := []Kind{KString, KString, KString, KInt64, KUint64, KFloat, KBool, KDuration, KTime, KError, KBytes, KMap, KStruct, KNilPtr, KNil, KMarshalOK, KMarshalErr, KMarshalGarbage,
		KRawValid, KRawInvalid, KRawNil, KAnsi, KUnencodableMap, KErrMarshaler}
	if o.TextKinds {
		kinds = append(kinds, KTextOK, KTextErr, KTextOK)
	}
	str := SmallString()
	if o.Huge {
		str = HostileString()
	}
	return rapid.Custom(func(t *rapid.T) Node {
		n := Node{Kind: rapid.SampledFrom(kinds).Draw(t, "kind")}
		switch n.Kind {
		case KString, KError, KBytes, KAnsi, KTextOK, KTextErr, KMarshalErr:
			n.S = str.Draw(t, "s")
		case KMap, KStruct:
			n.S = SmallString().Draw(t, "s")
			n.I = rapid.Int64Range(-5, 5).Draw(t, "i")
			n.B = rapid.Bool().Draw(t, "b")
		case KInt64:
			n.I = rapid.OneOf(rapid.SampledFrom([]int64{0, 1, -1, math.MaxInt64, math.MinInt64, 1 << 53, -(1 << 53) - 1}), rapid.Int64(), BoundaryInt64()).Draw(t, "i")
		case KUint64:
			n.U = rapid.OneOf(rapid.SampledFrom([]uint64{0, 1, math.MaxUint64, 1 << 63, 1<<53 + 1}), rapid.Uint64(),
				rapid.Custom(func(t *rapid.T) uint64 { return uint64(BoundaryInt64().Draw(t, "b")) })).Draw(t, "u")
		case KFloat:
			n.F = rapid.OneOf(rapid.SampledFrom([]float64{0, math.Copysign(0, -1), 5e-324, 1e308, -1e308, math.NaN(), math.Inf(1), math.Inf(-1), 0.1, 1e21, 1e-7, 123456789,
				// where number formats change their mind: exponent or not, integral or not, the last exact integer
				1e20, 999999999999999900000, 1.0000000000000001e21, 1e-6, 9.999999e-7, 1, -1, 10, 100, 1000, 1e6, 1e15, 9007199254740992, 9007199254740994, -9007199254740993,
				0.5, 0.25, 1.5, float64(float32(0.1)), math.MaxFloat64, math.SmallestNonzeroFloat64, math.MaxInt64, math.MinInt64, 4294967296, 2147483648, 1e100, 1e-100, 2.2250738585072014e-308}),
				rapid.Float64(), rapid.Map(rapid.IntRange(-100000, 100000), func(i int) float64 { return float64(i) / 100 })).Draw(t, "f")
		case KBool:
			n.B = rapid.Bool().Draw(t, "b")
		case KDuration:
			n.I = rapid.OneOf(rapid.SampledFrom([]int64{0, 1, -1, int64(time.Second), int64(36 * time.Hour), math.MaxInt64, math.MinInt64}), rapid.Int64(), BoundaryInt64()).Draw(t, "d")
		case KTime:
			n.T = genTime().Draw(t, "t")
		case KMarshalOK, KErrMarshaler:
			n.S = rapid.SampledFrom([]string{`{"a":1}`, `[1, 2,   3]`, `"str"`, "{\n  \"pretty\": [\n    true\n  ]\n}", `null`, `12.50`, `{"a":{"b":{}}}`, `" "`, `{"dup":1,"dup":2}`, `{}`, `[]`}).Draw(t, "json")
		case KMarshalGarbage:
			n.S = rapid.SampledFrom([]string{`{`, `}`, ``, `{"a":}`, `nul`, `"unterminated`, "\x00", `{"a":1}}`, `1 2`, "\xff"}).Draw(t, "garbage")
		case KRawValid:
			n.S = rapid.SampledFrom([]string{`{"a": 1,  "b":[ ]}`, " \t\n{\n}\n ", `"s"`, `0`, `[{"x":null}]`, `{"a":"\n"}`}).Draw(t, "raw")
		case KRawInvalid:
			n.S = rapid.SampledFrom([]string{`{`, `{"a"`, `tru`, `"`, `}{`, "\n", `{"a":1},`}).Draw(t, "rawbad")
		}
		return n
	})
}

// GenNode draws one attribute (leaf or group, possibly behind LogValuers).
func GenNode(o GenOpts, depth int) *rapid.Generator[Node] {
	return rapid.Custom(func(t *rapid.T) Node {
		var n Node
		isGroup := depth < o.MaxDepth && rapid.IntRange(0, 9).Draw(t, "isGroup") < 3
		if isGroup {
			n.Kind = KGroup
			cnt := rapid.SampledFrom([]int{0, 0, 1, 1, 2, 3, 4}).Draw(t, "nmembers")
			for i := 0; i < cnt; i++ {
				n.Members = append(n.Members, GenNode(o, depth+1).Draw(t, "member"))
			}
			if rapid.IntRange(0, 2).Draw(t, "inline") == 0 {
				n.Key = ""
			} else {
				n.Key = SmallString().Draw(t, "gkey")
			}
		} else {
			n = genLeaf(o).Draw(t, "leaf")
			n.Key = SmallString().Draw(t, "key")
			if o.Huge && rapid.IntRange(0, 40).Draw(t, "hugekey") == 0 {
				n.Key = HostileString().Draw(t, "bigkey")
			}
		}
		switch v := rapid.IntRange(0, 9).Draw(t, "valuer"); {
		case v == 0:
			n.Valuer = 1
		case v == 1 && isGroup:
			n.Valuer = 2
		}
		if n.Valuer > 0 {
			n.Nested = rapid.IntRange(0, 2).Draw(t, "valuerLogsWhileResolved") == 0
		}
		return n
	})
}

func GenNodes(o GenOpts, maxN int) *rapid.Generator[[]Node] {
	return rapid.Custom(func(t *rapid.T) []Node {
		n := rapid.IntRange(0, maxN).Draw(t, "nattrs")
		out := make([]Node, 0, n)
		for i := 0; i < n; i++ {
			out = append(out, GenNode(o, 1).Draw(t, "attr"))
		}
		return out
	})
}

// Step is one derivation: With(attrs) when Group == "", else WithGroup(Group).
type Step struct {
	With  []Node
	Group string
}

func (s Step) Render() string {
	if s.Group != "" {
		return fmt.Sprintf("WithGroup(%q)", s.Group)
	}
	return "With(" + RenderNodes(s.With) + ")"
}

func RenderChain(c []Step) string {
	parts := make([]string, len(c))
	for i, s := range c {
		parts[i] = s.Render()
	}
	return strings.Join(parts, ".")
}

func GenStep(o GenOpts) *rapid.Generator[Step] {
	return rapid.Custom(func(t *rapid.T) Step {
		if rapid.IntRange(0, 2).Draw(t, "isWithGroup") == 0 {
			name := SmallString().Filter(func(s string) bool { return s != "" }).Draw(t, "groupname")
			return Step{Group: name}
		}
		n := rapid.IntRange(1, 3).Draw(t, "nwith")
		var ns []Node
		for i := 0; i < n; i++ {
			ns = append(ns, GenNode(o, 1).Draw(t, "withattr"))
		}
		return Step{With: ns}
	})
}

func GenChain(o GenOpts, maxLen int) *rapid.Generator[[]Step] {
	return rapid.Custom(func(t *rapid.T) []Step {
		n := rapid.SampledFrom([]int{0, 0, 1, 1, 2, 3, 4, 5}).Draw(t, "chainlen")
		if n > maxLen {
			n = maxLen
		}
		out := make([]Step, 0, n)
		for i := 0; i < n; i++ {
			out = append(out, GenStep(o).Draw(t, "step"))
		}
		return out
	})
}

// GenDeepChain draws a derivation chain that opens many groups: 15..300 WithGroup calls with short names, a With here
// and there. Depth is an input like any other (per-request, per-component, per-retry loggers nest).
func GenDeepChain(o GenOpts) *rapid.Generator[[]Step] {
	return rapid.Custom(func(t *rapid.T) []Step {
		n := rapid.SampledFrom([]int{15, 16, 17, 31, 32, 33, 64, 127, 128, 255, 256, 257, 300}).Draw(t, "depth")
		withEvery := rapid.SampledFrom([]int{0, 0, 5, 9}).Draw(t, "withEvery")
		out := make([]Step, 0, n+8)
		for i := 0; i < n; i++ {
			out = append(out, Step{Group: fmt.Sprintf("g%d", i)})
			if withEvery > 0 && i%withEvery == withEvery-1 {
				out = append(out, Step{With: []Node{GenNode(o, 1).Draw(t, "withattr")}})
			}
		}
		return out
	})
}

var Levels = []slog.Level{logger.LevelDebug, logger.LevelInfo, logger.LevelWarn, logger.LevelError, logger.LevelFatal}
var LevelNames = map[slog.Level]string{logger.LevelDebug: "DEBUG", logger.LevelInfo: "INFO", logger.LevelWarn: "WARN", logger.LevelError: "ERROR", logger.LevelFatal: "FATAL"}

// Derive applies a chain to a logger.
func Derive(l *logger.Logger, chain []Step) *logger.Logger {
	for _, s := range chain {
		if s.Group != "" {
			l = l.WithGroup(s.Group)
		} else {
			args := make([]any, len(s.With))
			for i, n := range s.With {
				args[i] = n.Attr()
			}
			l = l.With(args...)
		}
	}
	return l
}

// GenInstant draws the record time for the direct Handle entry point.
func GenInstant() *rapid.Generator[time.Time] { return genTime() }

// GenDecoys draws, for every step of a chain, 0..2 sibling derivations applied to the same parent.
func GenDecoys(o GenOpts, chainLen int) *rapid.Generator[[][]Step] {
	return rapid.Custom(func(t *rapid.T) [][]Step {
		out := make([][]Step, chainLen)
		for i := range out {
			n := rapid.SampledFrom([]int{0, 0, 1, 1, 2}).Draw(t, "ndecoys")
			for k := 0; k < n; k++ {
				out[i] = append(out[i], GenStep(o).Draw(t, "decoy"))
			}
		}
		return out
	})
}
