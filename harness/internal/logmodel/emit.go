package logmodel

import (
	"context"
	"errors"
	"fmt"
	"io"
	"log/slog"
	"runtime"
	"strings"
	"sync"

	"github.com/whoisnian/glb/logger"
	"pgregory.net/rapid"
)

// Sink records every Write call (payload copied).
type Sink struct {
	mu     sync.Mutex
	Writes [][]byte
	// Piece > 0: the destination is not atomic per Write call (a pipe, a connection, a buffered writer): it takes the
	// payload Piece bytes at a time into one stream and lets other goroutines run in between. Torn counts the Write
	// calls whose bytes did not end up next to each other in that stream.
	Piece  int
	stream []byte
	Torn   int
	// Fail != nil: the first Fail.Times Write calls take only the first Fail.Accept bytes (always fewer than offered) and
	// return an error. Accepted holds every byte the destination took, from failed and successful calls alike
	// (kept only while Fail is set).
	Fail        *Failure
	FailedCalls int
	Accepted    []byte
	// RejectOver > 0: a destination with a size limit (a datagram socket, a syslog line): it notes what it was offered
	// and refuses payloads longer than this with an error. RejectEvery > 0: it refuses every n-th payload.
	RejectOver  int
	RejectEvery int
	Rejected    int
}

// Failure describes a destination that fails for a while: a full disk that is cleaned up, a connection with a write
// deadline, an interrupted system call.
type Failure struct {
	Times  int
	Accept int
	Kind   int // 0 plain error, 1 an error with Temporary() and Timeout() true, 2 io.ErrShortWrite
}

type temporaryError struct{}

func (temporaryError) Error() string   { return "destination: resource temporarily unavailable" }
func (temporaryError) Temporary() bool { return true }
func (temporaryError) Timeout() bool   { return true }

var FailureKindNames = []string{"plain_error", "temporary_error", "short_write"}

func GenFailure() *rapid.Generator[*Failure] {
	return rapid.Custom(func(t *rapid.T) *Failure {
		return &Failure{
			Times:  rapid.SampledFrom([]int{1, 1, 1, 2}).Draw(t, "failingWrites"),
			Accept: rapid.SampledFrom([]int{0, 0, 1, 5, 7, 20, 30, 45, 100, 1 << 20}).Draw(t, "bytesAcceptedBeforeTheError"),
			Kind:   rapid.IntRange(0, 2).Draw(t, "errorKind"),
		}
	})
}

func (s *Sink) Write(p []byte) (int, error) {
	if s.Fail != nil && s.FailedCalls < s.Fail.Times {
		s.mu.Lock()
		defer s.mu.Unlock()
		s.FailedCalls++
		n := max(0, min(s.Fail.Accept, len(p)-1))
		s.Accepted = append(s.Accepted, p[:n]...)
		switch s.Fail.Kind {
		case 1:
			return n, temporaryError{}
		case 2:
			return n, io.ErrShortWrite
		}
		return n, errors.New("destination: write failed")
	}
	if s.Piece > 0 {
		start := -1
		for q := p; len(q) > 0; {
			k := min(len(q), s.Piece)
			s.mu.Lock()
			if start < 0 {
				start = len(s.stream)
			}
			s.stream = append(s.stream, q[:k]...)
			s.mu.Unlock()
			q = q[k:]
			runtime.Gosched()
		}
		s.mu.Lock()
		if start >= 0 && string(s.stream[start:start+len(p)]) != string(p) {
			s.Torn++
		}
		s.mu.Unlock()
	}
	s.mu.Lock()
	s.Writes = append(s.Writes, append([]byte(nil), p...))
	if s.Fail != nil {
		s.Accepted = append(s.Accepted, p...)
	}
	nth := len(s.Writes)
	reject := (s.RejectOver > 0 && len(p) > s.RejectOver) || (s.RejectEvery > 0 && nth%s.RejectEvery == 0)
	if reject {
		s.Rejected++
	}
	s.mu.Unlock()
	if reject {
		return 0, errors.New("destination: message too long")
	}
	return len(p), nil
}

func (s *Sink) Reset() {
	s.mu.Lock()
	s.Writes = nil
	s.Accepted = nil
	s.mu.Unlock()
}

func lastTwo(file string) string {
	i := strings.LastIndexByte(file, '/')
	if i < 0 {
		return file
	}
	j := strings.LastIndexByte(file[:i], '/')
	return file[j+1:]
}

func here(skip int) (string, int) {
	_, file, line, _ := runtime.Caller(skip)
	return lastTwo(file), line
}

const NumForms = 10

var doneCtx = func() context.Context {
	ctx, cancel := context.WithCancel(context.Background())
	cancel()
	return ctx
}()

// CtxFor picks the context handed to the logging call: for a third of the records one that is already cancelled. A
// record is written whatever the state of the caller's context (a request handler logging "client went away" does so
// with a done context); the choice is a pure function of the record so that every path logs it the same way.
func CtxFor(form int, msg string) context.Context {
	if (len(msg)+form)%3 == 0 {
		return doneCtx
	}
	return context.Background()
}

// FormTakesAttrs reports whether the entry point of this form accepts attributes (the printf-style ones do not).
func FormTakesAttrs(form int) bool { f := form % NumForms; return f < 4 || f == 6 || f == 7 }

// FormMessage is the message the record must carry when msg is handed to the entry point of this form: forms 8 and 9
// pass it as the format string itself, without arguments (logger.Infof("server started")), so fmt's reading of a bare
// format applies (%% becomes %, a lone verb becomes %!v(MISSING)).
func FormMessage(form int, msg string) string {
	if f := form % NumForms; f == 8 || f == 9 {
		return fmt.Sprintf(msg)
	}
	return msg
}

// recovered runs a logging call that ends in a panic (Logger.Panic, Logger.Panicf) the way its caller would: the record
// has been handed to the handler by the time the panic is raised.
func recovered(f func()) {
	defer func() { _ = recover() }()
	f()
}

// Emit logs one record through one of the Logger's entry points and returns the source position
// (last two path elements of the file, line) of the logging call.
func Emit(l *logger.Logger, form int, level slog.Level, msg string, nodes []Node) (file string, line int) {
	ctx := CtxFor(form, msg)
	switch form % NumForms {
	case 0:
		args := Args(nodes, false)
		file, line = here(1)
		l.Log(ctx, level, msg, args...)
		return file, line + 1
	case 1:
		args := Args(nodes, true)
		file, line = here(1)
		l.Log(ctx, level, msg, args...)
		return file, line + 1
	case 2:
		attrs := Attrs(nodes)
		file, line = here(1)
		l.LogAttrs(ctx, level, msg, attrs...)
		return file, line + 1
	case 6, 7:
		// a call site with an awkward recorded file name (see emit_line.go); which one depends on the message
		return emitOddSource(l, len(msg)+len(nodes)+form, level, msg, Attrs(nodes))
	case 8:
		// printf-style entry point with the message as the format and no arguments at all
		file, line = here(1)
		l.Logf(ctx, level, msg)
		return file, line + 1
	case 9:
		switch level {
		case logger.LevelDebug:
			file, line = here(1)
			l.Debugf(msg)
			return file, line + 1
		case logger.LevelInfo:
			file, line = here(1)
			l.Infof(msg)
			return file, line + 1
		case logger.LevelWarn:
			file, line = here(1)
			l.Warnf(msg)
			return file, line + 1
		case logger.LevelError:
			if len(msg)%2 == 1 { // the entry point that logs at LevelError and then panics with the message; the caller recovers
				file, line = here(1)
				recovered(func() { l.Panicf(msg) })
				return file, line + 1
			}
			file, line = here(1)
			l.Errorf(msg)
			return file, line + 1
		default:
			file, line = here(1)
			l.Logf(ctx, level, msg)
			return file, line + 1
		}
	case 4:
		// printf-style entry point: the message goes through a %s verb, attributes cannot be passed
		file, line = here(1)
		l.Logf(ctx, level, "%s", msg)
		return file, line + 1
	case 5:
		switch level {
		case logger.LevelDebug:
			file, line = here(1)
			l.Debugf("%s", msg)
			return file, line + 1
		case logger.LevelInfo:
			file, line = here(1)
			l.Infof("%s", msg)
			return file, line + 1
		case logger.LevelWarn:
			file, line = here(1)
			l.Warnf("%s", msg)
			return file, line + 1
		case logger.LevelError:
			if len(msg)%2 == 1 {
				file, line = here(1)
				recovered(func() { l.Panicf("%s", msg) })
				return file, line + 1
			}
			file, line = here(1)
			l.Errorf("%s", msg)
			return file, line + 1
		default:
			file, line = here(1)
			l.Logf(ctx, level, "%s%s", msg, "")
			return file, line + 1
		}
	default:
		args := Args(nodes, false)
		switch level {
		case logger.LevelDebug:
			file, line = here(1)
			l.Debug(msg, args...)
			return file, line + 1
		case logger.LevelInfo:
			file, line = here(1)
			l.Info(msg, args...)
			return file, line + 1
		case logger.LevelWarn:
			file, line = here(1)
			l.Warn(msg, args...)
			return file, line + 1
		case logger.LevelError:
			if len(msg)%2 == 1 {
				file, line = here(1)
				recovered(func() { l.Panic(msg, args...) })
				return file, line + 1
			}
			file, line = here(1)
			l.Error(msg, args...)
			return file, line + 1
		default: // Fatal would exit the process
			file, line = here(1)
			l.Log(ctx, level, msg, args...)
			return file, line + 1
		}
	}
}

// HandlerFor derives a Handler (not a Logger) along a chain, for the direct Handle entry point.
func DeriveHandler(h logger.Handler, chain []Step) logger.Handler {
	for _, s := range chain {
		if s.Group != "" {
			h = h.WithGroup(s.Group)
		} else {
			h = h.WithAttrs(Attrs(s.With))
		}
	}
	return h
}

// CallerPC returns a program counter inside the caller together with its source position.
func CallerPC() (pc uintptr, file string, line int) {
	var pcs [1]uintptr
	runtime.Callers(2, pcs[:])
	f, _ := runtime.CallersFrames(pcs[:]).Next()
	return pcs[0], lastTwo(f.File), f.Line
}

// DeriveWithDecoys derives along chain like Derive; in addition, after the real child of step i exists,
// the steps decoys[i] are applied one by one to the SAME parent (siblings of the real child that are
// never logged through). Isolation means they cannot influence what the real chain writes.
func DeriveWithDecoys(l *logger.Logger, chain []Step, decoys [][]Step) *logger.Logger {
	for i, s := range chain {
		parent := l
		l = Derive(parent, []Step{s})
		if i < len(decoys) {
			for _, d := range decoys[i] {
				_ = Derive(parent, []Step{d})
			}
		}
	}
	return l
}

// DeriveHandlerWithDecoys is the Handler-level counterpart.
func DeriveHandlerWithDecoys(h logger.Handler, chain []Step, decoys [][]Step) logger.Handler {
	for i, s := range chain {
		parent := h
		h = DeriveHandler(parent, []Step{s})
		if i < len(decoys) {
			for _, d := range decoys[i] {
				_ = DeriveHandler(parent, []Step{d})
			}
		}
	}
	return h
}
