package logmodel

import (
	"fmt"
	"log/slog"
	"strings"
	"sync/atomic"

	"pgregory.net/rapid"
)

// SeqValuer is a deferred value that differs every time it is resolved: 1, 2, 3, ... A record that is handed an
// attribute holding one shows the number of the resolution that was made for it.
type SeqValuer struct{ N *atomic.Int64 }

func (s SeqValuer) LogValue() slog.Value { return slog.Int64Value(s.N.Add(1)) }

// seqGroupValuer resolves to a group that holds the number.
type seqGroupValuer struct{ N *atomic.Int64 }

func (s seqGroupValuer) LogValue() slog.Value {
	return slog.GroupValue(slog.String("kind", "resolved-group"), slog.Int64("seq", s.N.Add(1)))
}

// ReusedAttr is one attribute value that a program builds once and logs many times (a package-level
// slog.Group("req", ...)): groups within groups, keyed or inline, with a SeqValuer somewhere inside.
type ReusedAttr struct {
	Attr slog.Attr
	Path []string // keys of the enclosing keyed groups, outermost first, then "seq"
	N    *atomic.Int64
	Desc string

	shape reusedShape
}

func GenReusedAttr() *rapid.Generator[*ReusedAttr] {
	return rapid.Custom(func(t *rapid.T) *ReusedAttr {
		r := &ReusedAttr{N: &atomic.Int64{}}
		var leaf slog.Attr
		var path []string
		var shape reusedShape
		if shape.group = rapid.IntRange(0, 3).Draw(t, "resolvesToAGroup") == 0; shape.group {
			leaf = slog.Any("v", seqGroupValuer{r.N})
			path = []string{"v", "seq"}
		} else {
			leaf = slog.Any("seq", SeqValuer{r.N})
			path = []string{"seq"}
		}
		depth := rapid.IntRange(1, 3).Draw(t, "groupDepth")
		attr := leaf
		var desc []string
		for d := 0; d < depth; d++ {
			key := fmt.Sprintf("g%d", d)
			if rapid.IntRange(0, 2).Draw(t, "inline") == 0 {
				key = ""
			}
			members := []any{attr}
			position := rapid.IntRange(0, 2).Draw(t, "position")
			shape.levels = append(shape.levels, reusedLevel{key, position})
			switch position {
			case 0:
				members = []any{attr, slog.String(fmt.Sprintf("after%d", d), "x")}
			case 1:
				members = []any{slog.Int(fmt.Sprintf("before%d", d), d), attr, slog.String(fmt.Sprintf("after%d", d), "x")}
			}
			attr = slog.Group(key, members...)
			if key != "" {
				path = append([]string{key}, path...)
			}
			desc = append([]string{fmt.Sprintf("%q(%d members)", key, len(members))}, desc...)
		}
		r.Attr, r.Path = attr, path
		r.Desc = "groups " + strings.Join(desc, " > ") + " path " + strings.Join(path, ".")
		r.shape = shape
		return r
	})
}

// Fresh builds another attribute value of the same shape whose deferred value will next resolve to next: what a
// program that builds the attribute anew for every record hands to the logger.
func (r *ReusedAttr) Fresh(next int64) slog.Attr {
	n := &atomic.Int64{}
	n.Store(next - 1)
	var attr slog.Attr
	if r.shape.group {
		attr = slog.Any("v", seqGroupValuer{n})
	} else {
		attr = slog.Any("seq", SeqValuer{n})
	}
	for d, lv := range r.shape.levels {
		members := []any{attr}
		switch lv.position {
		case 0:
			members = []any{attr, slog.String(fmt.Sprintf("after%d", d), "x")}
		case 1:
			members = []any{slog.Int(fmt.Sprintf("before%d", d), d), attr, slog.String(fmt.Sprintf("after%d", d), "x")}
		}
		attr = slog.Group(lv.key, members...)
	}
	return attr
}

type reusedLevel struct {
	key      string
	position int
}

type reusedShape struct {
	group  bool
	levels []reusedLevel
}
