package logmodel

import (
	"fmt"
	"math"
	"strconv"
	"strings"
	"time"
	"unicode"
	"unicode/utf8"
)

// Token is one key=value item of a text line, after unquoting.
type Token struct {
	Key, Val        string
	KeyQuoted, ValQ bool
}

// Tokenize is the independent parser of the Text handler's line format: space-separated key=value
// tokens where each side is either a Go-quoted string or a non-empty bare run free of whitespace,
// '=' and '"'. It fails unless the whole payload is consumed that way.
func Tokenize(payload []byte) ([]Token, error) {
	if len(payload) == 0 || payload[len(payload)-1] != '\n' {
		return nil, fmt.Errorf("payload does not end in a newline")
	}
	line := string(payload[:len(payload)-1])
	var toks []Token
	i := 0
	readSide := func(what string) (string, bool, error) {
		if i >= len(line) {
			return "", false, fmt.Errorf("offset %d: %s is missing", i, what)
		}
		if line[i] == '"' {
			q, err := strconv.QuotedPrefix(line[i:])
			if err != nil {
				return "", true, fmt.Errorf("offset %d: %s starts a quoted string that does not terminate: %v", i, what, err)
			}
			s, err := strconv.Unquote(q)
			if err != nil {
				return "", true, fmt.Errorf("offset %d: %s: %v", i, what, err)
			}
			if strings.ContainsAny(q, "\n\r") {
				return "", true, fmt.Errorf("offset %d: quoted %s contains a raw line break", i, what)
			}
			i += len(q)
			return s, true, nil
		}
		start := i
		for i < len(line) {
			r, size := utf8.DecodeRuneInString(line[i:])
			if r == '=' || r == '"' || r == ' ' {
				break
			}
			if unicode.IsSpace(r) || r == '\n' || r == '\r' {
				return "", false, fmt.Errorf("offset %d: whitespace %q inside a bare %s", i, r, what)
			}
			i += size
		}
		if i == start {
			return "", false, fmt.Errorf("offset %d: empty bare %s", i, what)
		}
		return line[start:i], false, nil
	}
	for {
		k, kq, err := readSide("key")
		if err != nil {
			return toks, err
		}
		if i >= len(line) || line[i] != '=' {
			return toks, fmt.Errorf("offset %d: expected '=' after key %q", i, k)
		}
		i++
		v, vq, err := readSide("value")
		if err != nil {
			return toks, err
		}
		toks = append(toks, Token{k, v, kq, vq})
		if i == len(line) {
			return toks, nil
		}
		if line[i] != ' ' {
			return toks, fmt.Errorf("offset %d: expected a single space or end of line after value %q, found %q", i, v, line[i])
		}
		i++
		if i == len(line) {
			return toks, fmt.Errorf("trailing space at end of line")
		}
	}
}

// TextKind says how a value token is compared.
type TVKind int

const (
	TVExact TVKind = iota // text must be equal
	TVFloat               // parses to the same float64
	TVTime                // RFC3339, same instant to the second
	TVAny                 // any text (composite Go values: formatting is not fixed by the statement)
)

type TExp struct {
	Key  string
	Kind TVKind
	Text string
	F    float64
	T    time.Time
}

func textPath(groups []string, key string) string {
	if len(groups) == 0 {
		return key
	}
	return strings.Join(groups, ".") + "." + key
}

// ExpectTextNode flattens a node into the tokens it contributes; groups holds the names of the
// enclosing open groups (WithGroup names and non-empty group keys).
func ExpectTextNode(groups []string, n Node) []TExp {
	if n.Kind == KGroup {
		g := groups
		if n.Key != "" {
			g = append(append([]string{}, groups...), n.Key)
		}
		var out []TExp
		for _, m := range n.Members {
			out = append(out, ExpectTextNode(g, m)...)
		}
		return out
	}
	e := TExp{Key: textPath(groups, n.Key)}
	switch n.Kind {
	case KString, KError, KBytes, KAnsi, KTextOK, KTextErr:
		e.Text = n.S
	case KInt64:
		e.Text = strconv.FormatInt(n.I, 10)
	case KUint64:
		e.Text = strconv.FormatUint(n.U, 10)
	case KFloat:
		e.Kind, e.F = TVFloat, n.F
	case KBool:
		e.Text = strconv.FormatBool(n.B)
	case KDuration:
		e.Text = time.Duration(n.I).String()
	case KTime:
		e.Kind, e.T = TVTime, n.T
	default:
		e.Kind = TVAny
	}
	return []TExp{e}
}

func ExpectTextBody(chain []Step, attrs []Node) []TExp {
	var groups []string
	var out []TExp
	for _, s := range chain {
		if s.Group != "" {
			groups = append(groups, s.Group)
			continue
		}
		for _, n := range s.With {
			out = append(out, ExpectTextNode(groups, n)...)
		}
	}
	for _, n := range attrs {
		out = append(out, ExpectTextNode(groups, n)...)
	}
	return out
}

func MatchTokens(toks []Token, exp []TExp, offset int) string {
	if len(toks)-offset != len(exp) {
		return fmt.Sprintf("%d attribute tokens, want %d", len(toks)-offset, len(exp))
	}
	for i, e := range exp {
		t := toks[offset+i]
		if t.Key != e.Key {
			return fmt.Sprintf("token #%d: key %q, want %q", offset+i, t.Key, e.Key)
		}
		switch e.Kind {
		case TVExact:
			if t.Val != e.Text {
				return fmt.Sprintf("token #%d (%q): value %s, want %s", offset+i, t.Key, shortQ(t.Val), shortQ(e.Text))
			}
		case TVFloat:
			f, err := strconv.ParseFloat(t.Val, 64)
			if err != nil || !(f == e.F || (math.IsNaN(f) && math.IsNaN(e.F))) {
				return fmt.Sprintf("token #%d (%q): value %q, want float %v", offset+i, t.Key, t.Val, e.F)
			}
		case TVTime:
			tt, err := time.Parse(time.RFC3339, t.Val)
			if err != nil || !tt.Equal(e.T.Truncate(time.Second)) {
				return fmt.Sprintf("token #%d (%q): value %q, want the instant %s to the second (%v)", offset+i, t.Key, t.Val, e.T.Format(time.RFC3339Nano), err)
			}
		}
	}
	return ""
}
