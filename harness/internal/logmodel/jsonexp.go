package logmodel

import (
	"bytes"
	"encoding/json"
	"fmt"
	"io"
	"math"
	"math/big"
	"strconv"
	"strings"
	"time"
	"unicode/utf8"
)

// ---- decoded JSON as an ordered tree ----

type JKind int

const (
	JObject JKind = iota
	JArray
	JString
	JNumber
	JBool
	JNull
)

type JVal struct {
	Kind    JKind
	Str     string // string value or number literal
	Bool    bool
	Members []JMember // object, in document order (duplicates kept)
	Elems   []JVal
}

type JMember struct {
	Key string
	Val JVal
}

// DecodeOne reads exactly one JSON value from data (followed only by whitespace) into an ordered tree.
func DecodeOne(data []byte) (JVal, error) {
	dec := json.NewDecoder(bytes.NewReader(data))
	dec.UseNumber()
	v, err := decodeValue(dec)
	if err != nil {
		return v, err
	}
	if _, err := dec.Token(); err != io.EOF {
		return v, fmt.Errorf("trailing data after the first JSON value (next token error: %v)", err)
	}
	return v, nil
}

func decodeValue(dec *json.Decoder) (JVal, error) {
	tok, err := dec.Token()
	if err != nil {
		return JVal{}, err
	}
	switch t := tok.(type) {
	case json.Delim:
		switch t {
		case '{':
			v := JVal{Kind: JObject}
			for dec.More() {
				kt, err := dec.Token()
				if err != nil {
					return v, err
				}
				k, ok := kt.(string)
				if !ok {
					return v, fmt.Errorf("object key is not a string: %v", kt)
				}
				mv, err := decodeValue(dec)
				if err != nil {
					return v, err
				}
				v.Members = append(v.Members, JMember{k, mv})
			}
			if _, err := dec.Token(); err != nil {
				return v, err
			}
			return v, nil
		case '[':
			v := JVal{Kind: JArray}
			for dec.More() {
				ev, err := decodeValue(dec)
				if err != nil {
					return v, err
				}
				v.Elems = append(v.Elems, ev)
			}
			if _, err := dec.Token(); err != nil {
				return v, err
			}
			return v, nil
		}
		return JVal{}, fmt.Errorf("unexpected delimiter %v", t)
	case string:
		return JVal{Kind: JString, Str: t}, nil
	case json.Number:
		return JVal{Kind: JNumber, Str: string(t)}, nil
	case bool:
		return JVal{Kind: JBool, Bool: t}, nil
	case nil:
		return JVal{Kind: JNull}, nil
	}
	return JVal{}, fmt.Errorf("unexpected token %T", tok)
}

func (v JVal) String() string {
	switch v.Kind {
	case JObject:
		parts := make([]string, len(v.Members))
		for i, m := range v.Members {
			parts[i] = strconv.Quote(m.Key) + ":" + m.Val.String()
		}
		return "{" + strings.Join(parts, ",") + "}"
	case JArray:
		parts := make([]string, len(v.Elems))
		for i, e := range v.Elems {
			parts[i] = e.String()
		}
		return "[" + strings.Join(parts, ",") + "]"
	case JString:
		s := v.Str
		if len(s) > 80 {
			s = s[:80] + "…"
		}
		return strconv.Quote(s)
	case JNumber:
		return v.Str
	case JBool:
		return strconv.FormatBool(v.Bool)
	}
	return "null"
}

func equalJ(a, b JVal) bool {
	if a.Kind != b.Kind {
		return false
	}
	switch a.Kind {
	case JObject:
		if len(a.Members) != len(b.Members) {
			return false
		}
		for i := range a.Members {
			if a.Members[i].Key != b.Members[i].Key || !equalJ(a.Members[i].Val, b.Members[i].Val) {
				return false
			}
		}
		return true
	case JArray:
		if len(a.Elems) != len(b.Elems) {
			return false
		}
		for i := range a.Elems {
			if !equalJ(a.Elems[i], b.Elems[i]) {
				return false
			}
		}
		return true
	case JString, JNumber:
		return a.Str == b.Str
	case JBool:
		return a.Bool == b.Bool
	}
	return true
}

// ---- expectations ----

type EKind int

const (
	EString EKind = iota // exact string
	EInt                 // integer literal equal to Big
	EFloat               // number parsing to F
	EBool
	ENull
	ETime       // RFC3339Nano string equal to T
	ETimeWindow // RFC3339Nano string within [T, T2]
	ETimeInZone // RFC3339Nano string for instant T, written in T's own zone offset (the record's own time)
	EJSON       // subtree equal to the reference encoding Ref
	EErrString  // any JSON string (an encoding error rendered as text; the text itself may be empty)
	EObject
)

type Exp struct {
	Kind     EKind
	Str      string
	Big      *big.Int
	F        float64
	Bool     bool
	T, T2    time.Time
	Ref      JVal
	Members  []EMember
	Optional bool // recursively empty group: may be rendered as an empty object or be omitted
	Alt      *Exp // a second reading the statement allows just as well: the value matches if it matches either
}

type EMember struct {
	Key string
	Exp Exp
}

// Sanitize is the model of "each invalid UTF-8 byte becomes U+FFFD".
func Sanitize(s string) string {
	if utf8.ValidString(s) {
		return s
	}
	var sb strings.Builder
	for i := 0; i < len(s); {
		r, size := utf8.DecodeRuneInString(s[i:])
		if r == utf8.RuneError && size == 1 {
			sb.WriteRune(utf8.RuneError)
		} else {
			sb.WriteString(s[i : i+size])
		}
		i += size
	}
	return sb.String()
}

func refJSON(v any) (JVal, bool) {
	var bb bytes.Buffer
	enc := json.NewEncoder(&bb)
	enc.SetEscapeHTML(false)
	if err := enc.Encode(v); err != nil {
		return JVal{}, false
	}
	j, err := DecodeOne(bb.Bytes())
	if err != nil {
		return JVal{}, false
	}
	return j, true
}

// ExpectNode returns the members a node contributes to the enclosing JSON object.
func ExpectNode(n Node) []EMember {
	switch n.Kind {
	case KGroup:
		var inner []EMember
		for _, m := range n.Members {
			inner = append(inner, ExpectNode(m)...)
		}
		if n.Key == "" {
			return inner
		}
		return []EMember{{Sanitize(n.Key), Exp{Kind: EObject, Members: inner, Optional: allOptional(inner)}}}
	}
	return []EMember{{Sanitize(n.Key), expectLeaf(n)}}
}

func allOptional(ms []EMember) bool {
	for _, m := range ms {
		if !m.Exp.Optional {
			return false
		}
	}
	return true
}

func expectLeaf(n Node) Exp {
	switch n.Kind {
	case KString, KError, KAnsi:
		return Exp{Kind: EString, Str: Sanitize(n.S)}
	case KInt64, KDuration:
		return Exp{Kind: EInt, Big: big.NewInt(n.I)}
	case KUint64:
		return Exp{Kind: EInt, Big: new(big.Int).SetUint64(n.U)}
	case KFloat:
		if math.IsNaN(n.F) || math.IsInf(n.F, 0) {
			return Exp{Kind: EErrString}
		}
		return Exp{Kind: EFloat, F: n.F}
	case KBool:
		return Exp{Kind: EBool, Bool: n.B}
	case KTime:
		return Exp{Kind: ETime, T: n.T}
	case KNil, KNilPtr, KRawNil:
		return Exp{Kind: ENull}
	case KMarshalErr, KMarshalGarbage, KRawInvalid, KUnencodableMap, KTextErr:
		return Exp{Kind: EErrString}
	case KErrMarshaler:
		// an error that is also a json.Marshaler: log/slog and the library let the Marshaler speak; the statement lists
		// both kinds and does not rank them, so the Error() text is accepted as well
		alt := Exp{Kind: EString, Str: Sanitize("E:" + n.S)}
		if ref, ok := refJSON(n.GoValue()); ok {
			return Exp{Kind: EJSON, Ref: ref, Alt: &alt}
		}
		return alt
	default: // KBytes, KMap, KStruct, KMarshalOK, KRawValid, KTextOK: whatever encoding/json makes of the same value
		ref, ok := refJSON(n.GoValue())
		if !ok {
			return Exp{Kind: EErrString}
		}
		return Exp{Kind: EJSON, Ref: ref}
	}
}

// ExpectBody builds the members that follow "msg": the derivation chain and the record's own attributes.
func ExpectBody(chain []Step, attrs []Node) []EMember {
	var build func(i int) []EMember
	build = func(i int) []EMember {
		if i == len(chain) {
			var out []EMember
			for _, a := range attrs {
				out = append(out, ExpectNode(a)...)
			}
			return out
		}
		s := chain[i]
		if s.Group != "" {
			inner := build(i + 1)
			return []EMember{{Sanitize(s.Group), Exp{Kind: EObject, Members: inner, Optional: allOptional(inner)}}}
		}
		var out []EMember
		for _, a := range s.With {
			out = append(out, ExpectNode(a)...)
		}
		return append(out, build(i+1)...)
	}
	return build(0)
}

// Match checks an actual value against an expectation; "" means it matches.
func Match(e Exp, a JVal, path string) string {
	if e.Alt != nil {
		if Match(*e.Alt, a, path) == "" {
			return ""
		}
	}
	switch e.Kind {
	case EString:
		if a.Kind != JString || a.Str != e.Str {
			return fmt.Sprintf("%s: got %s, want string %s", path, a, shortQ(e.Str))
		}
	case EInt:
		if a.Kind != JNumber {
			return fmt.Sprintf("%s: got %s, want number %s", path, a, e.Big)
		}
		got, ok := new(big.Int).SetString(a.Str, 10)
		if !ok || got.Cmp(e.Big) != 0 {
			return fmt.Sprintf("%s: got number literal %s, want %s", path, a.Str, e.Big)
		}
	case EFloat:
		if a.Kind != JNumber {
			return fmt.Sprintf("%s: got %s, want number %v", path, a, e.F)
		}
		f, err := strconv.ParseFloat(a.Str, 64)
		if err != nil || f != e.F {
			return fmt.Sprintf("%s: got number literal %s, want %v", path, a.Str, e.F)
		}
	case EBool:
		if a.Kind != JBool || a.Bool != e.Bool {
			return fmt.Sprintf("%s: got %s, want %v", path, a, e.Bool)
		}
	case ENull:
		if a.Kind != JNull {
			return fmt.Sprintf("%s: got %s, want null", path, a)
		}
	case ETime, ETimeWindow, ETimeInZone:
		if a.Kind != JString {
			return fmt.Sprintf("%s: got %s, want a time string", path, a)
		}
		t, err := time.Parse(time.RFC3339Nano, a.Str)
		if err != nil {
			return fmt.Sprintf("%s: %q does not parse as RFC3339Nano: %v", path, a.Str, err)
		}
		if e.Kind == ETimeInZone {
			_, got := t.Zone()
			_, want := e.T.Zone()
			if !t.Equal(e.T) || got != want {
				return fmt.Sprintf("%s: time %q is not the record's time %s (same instant, in the zone the record carries)", path, a.Str, e.T.Format(time.RFC3339Nano))
			}
		}
		if e.Kind == ETime && !t.Equal(e.T) {
			return fmt.Sprintf("%s: time %q is not the instant %s", path, a.Str, e.T.Format(time.RFC3339Nano))
		}
		if e.Kind == ETimeWindow && (t.Before(e.T) || t.After(e.T2)) {
			return fmt.Sprintf("%s: time %q lies outside [%s, %s]", path, a.Str, e.T.Format(time.RFC3339Nano), e.T2.Format(time.RFC3339Nano))
		}
	case EJSON:
		if !equalJ(e.Ref, a) {
			return fmt.Sprintf("%s: got %s, want %s (reference encoding/json output)", path, a, e.Ref)
		}
	case EErrString:
		if a.Kind != JString {
			return fmt.Sprintf("%s: got %s, want an error rendered as a JSON string", path, a)
		}
	case EObject:
		if a.Kind != JObject {
			return fmt.Sprintf("%s: got %s, want an object", path, a)
		}
		return matchMembers(e.Members, a.Members, path)
	}
	return ""
}

func shortQ(s string) string {
	if len(s) > 80 {
		return strconv.Quote(s[:80]) + "…"
	}
	return strconv.Quote(s)
}

// matchMembers aligns expected and actual members in order; optional expected members may be absent.
func matchMembers(exp []EMember, act []JMember, path string) string {
	var firstErr string
	var rec func(i, j int) bool
	rec = func(i, j int) bool {
		if i == len(exp) {
			if j == len(act) {
				return true
			}
			if firstErr == "" {
				firstErr = fmt.Sprintf("%s: unexpected extra member %q:%s", path, act[j].Key, act[j].Val)
			}
			return false
		}
		if j < len(act) && act[j].Key == exp[i].Key {
			if msg := Match(exp[i].Exp, act[j].Val, path+"."+strconv.Quote(exp[i].Key)); msg == "" {
				if rec(i+1, j+1) {
					return true
				}
			} else if firstErr == "" {
				firstErr = msg
			}
		} else if firstErr == "" && !exp[i].Exp.Optional {
			if j < len(act) {
				firstErr = fmt.Sprintf("%s: member #%d has key %q, want key %q", path, j, act[j].Key, exp[i].Key)
			} else {
				firstErr = fmt.Sprintf("%s: member %q is missing", path, exp[i].Key)
			}
		}
		if exp[i].Exp.Optional {
			return rec(i+1, j)
		}
		return false
	}
	if rec(0, 0) {
		return ""
	}
	if firstErr == "" {
		firstErr = path + ": members do not match"
	}
	return firstErr
}

// CheckJSONLine validates the framing of one written payload and matches it against the expected members.
func CheckJSONLine(payload []byte, exp []EMember) string {
	if len(payload) == 0 || payload[len(payload)-1] != '\n' {
		return "payload does not end in a newline"
	}
	body := payload[:len(payload)-1]
	if bytes.IndexByte(body, '\n') >= 0 {
		return "payload contains a newline before its end (more than one line)"
	}
	if bytes.IndexByte(body, '\r') >= 0 {
		return "payload contains a raw carriage return"
	}
	if !utf8.Valid(body) {
		return "payload is not valid UTF-8 (JSON text must be)"
	}
	v, err := DecodeOne(body)
	if err != nil {
		return "line does not parse as one JSON value: " + err.Error()
	}
	if v.Kind != JObject {
		return "line is not a JSON object"
	}
	return matchMembers(exp, v.Members, "$")
}
