package logmodel

import (
	"bytes"
	"io"

	"github.com/whoisnian/glb/logger"
)

const (
	HNano = iota
	HText
	HJson
)

var HandlerNames = []string{"Nano", "Text", "JSON"}

func NewHandler(kind int, w io.Writer, opts *logger.Options) logger.Handler {
	switch kind {
	case HNano:
		return logger.NewNanoHandler(w, opts)
	case HText:
		return logger.NewTextHandler(w, opts)
	default:
		return logger.NewJsonHandler(w, opts)
	}
}

// MaskTime blanks the time field, whose position is fixed per handler, so that two lines written at
// different instants can be compared byte for byte.
func MaskTime(kind int, line []byte) []byte {
	out := append([]byte(nil), line...)
	switch kind {
	case HNano:
		// "2006-01-02 15:04:05 " prefix
		for i := 0; i < 19 && i < len(out); i++ {
			out[i] = 'T'
		}
		return out
	case HText:
		if bytes.HasPrefix(out, []byte("time=")) {
			if sp := bytes.IndexByte(out, ' '); sp > 0 {
				return append([]byte("time=T"), out[sp:]...)
			}
		}
		return out
	default:
		pre := []byte(`{"time":"`)
		if bytes.HasPrefix(out, pre) {
			if q := bytes.IndexByte(out[len(pre):], '"'); q >= 0 {
				return append([]byte(`{"time":"T`), out[len(pre)+q:]...)
			}
		}
		return out
	}
}
