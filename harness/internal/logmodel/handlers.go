package logmodel

import (
	"bytes"
	"context"
	"errors"
	"io"
	"log/slog"
	"time"

	"pgregory.net/rapid"

	"github.com/whoisnian/glb/logger"
)

const (
	HNano = iota
	HText
	HJson
)

var HandlerNames = []string{"Nano", "Text", "JSON"}

func NewHandler(kind int, w io.Writer, opts *logger.Options) logger.Handler {
	switch kind {
	case HNano:
		return logger.NewNanoHandler(w, opts)
	case HText:
		return logger.NewTextHandler(w, opts)
	default:
		return logger.NewJsonHandler(w, opts)
	}
}

// MaskTime blanks the time field, whose position is fixed per handler, so that two lines written at
// different instants can be compared byte for byte.
func MaskTime(kind int, line []byte) []byte {
	out := append([]byte(nil), line...)
	switch kind {
	case HNano:
		// "2006-01-02 15:04:05 " prefix
		for i := 0; i < 19 && i < len(out); i++ {
			out[i] = 'T'
		}
		return out
	case HText:
		if bytes.HasPrefix(out, []byte("time=")) {
			if sp := bytes.IndexByte(out, ' '); sp > 0 {
				return append([]byte("time=T"), out[sp:]...)
			}
		}
		return out
	default:
		pre := []byte(`{"time":"`)
		if bytes.HasPrefix(out, pre) {
			if q := bytes.IndexByte(out[len(pre):], '"'); q >= 0 {
				return append([]byte(`{"time":"T`), out[len(pre)+q:]...)
			}
		}
		return out
	}
}

// Prime is a record logged through ANOTHER, fresh handler immediately before the record under test: what a handler
// writes for a record must not depend on what any handler in the process wrote before (caches keyed too coarsely,
// scratch memory shared between handlers). The priming record's time is the later record's time moved by DNanos and
// expressed in another zone, so that the two fall into the same second, minute or day on purpose.
type Prime struct {
	Use     bool
	Kind    int // handler kind of the priming handler
	ZoneMin int
	DNanos  int64
	Attrs   []Node
	// FailWrite: the priming record goes to a destination whose Write fails (a closed file, a full disk). Whatever the
	// handler does on that error path must not reach later records of other handlers.
	FailWrite bool
}

type failingWriter struct{}

func (failingWriter) Write([]byte) (int, error) { return 0, errors.New("destination: write failed") }

func GenPrime(o GenOpts) *rapid.Generator[Prime] {
	return rapid.Custom(func(t *rapid.T) Prime {
		if rapid.IntRange(0, 2).Draw(t, "primed") != 0 {
			return Prime{}
		}
		p := Prime{
			Use:     true,
			Kind:    rapid.IntRange(0, 2).Draw(t, "primeHandler"),
			ZoneMin: rapid.SampledFrom([]int{0, 60, -60, 330, 345, -720, 840, 1, 480}).Draw(t, "primeZoneMinutes"),
			DNanos:  rapid.SampledFrom([]int64{0, 0, 1, -1, 1000000, 400000000, -400000000, 1000000000, -1000000000, 60000000000, 86400000000000}).Draw(t, "primeShift"),
		}
		if rapid.Bool().Draw(t, "primeAttrs") {
			p.Attrs = GenNodes(o, 2).Draw(t, "primeAttrs")
		}
		p.FailWrite = rapid.IntRange(0, 2).Draw(t, "primeDestinationFails") == 0
		return p
	})
}

// Run logs the priming record (relative to base) into a sink of its own.
func (p Prime) Run(base time.Time, addSource bool) {
	if !p.Use {
		return
	}
	var dst io.Writer = io.Discard
	if p.FailWrite {
		dst = failingWriter{}
	}
	h := NewHandler(p.Kind, dst, logger.NewOptions(logger.LevelDebug, false, addSource))
	pc, _, _ := CallerPC()
	r := slog.NewRecord(base.Add(time.Duration(p.DNanos)).In(time.FixedZone("", p.ZoneMin*60)), logger.LevelInfo, "priming record", pc)
	r.AddAttrs(Attrs(p.Attrs)...)
	_ = h.Handle(context.Background(), r)
}
