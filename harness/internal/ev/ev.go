// Package ev collects evidence about what a check run actually covered:
// number of oracle evaluations, the set of distinct non-trivial case hashes,
// label histograms and a reservoir of sample cases. One collector per test
// process; Flush writes a JSON fragment (+ a binary side file of hashes) to
// the path given in VERIF_EV_OUT. The driver merges fragments of all shards.
package ev

import (
	"encoding/binary"
	"encoding/json"
	"hash/fnv"
	"os"
	"sort"
	"sync"
)

const maxHashes = 6_000_000 // per process; beyond this distinct cases are not counted (conservative)
const maxSamples = 12

type Fragment struct {
	Evaluations   int64            `json:"evaluations"`
	NonTrivial    int64            `json:"nontrivial_evaluations"`
	DistinctNT    int64            `json:"distinct_nontrivial"`
	HashOverflow  int64            `json:"hash_overflow"`
	Labels        map[string]int64 `json:"labels"`
	Samples       []string         `json:"samples"`
	Notes         []string         `json:"notes"`
	Assumptions   []string         `json:"assumptions"`
	Exhaustive    []string         `json:"exhaustive_scopes"`
	ExcludedKnown int64            `json:"excluded_known"`
	Inconclusive  int64            `json:"inconclusive"`
	Rule          string           `json:"rule"`
}

type collector struct {
	mu      sync.Mutex
	f       Fragment
	hashes  map[uint64]struct{}
	seenSmp int64
	notes   map[string]bool
}

var c = &collector{hashes: map[uint64]struct{}{}, notes: map[string]bool{}, f: Fragment{Labels: map[string]int64{}}}

// Hash is a convenience FNV-1a over the given strings.
func Hash(parts ...string) uint64 {
	h := fnv.New64a()
	for _, p := range parts {
		h.Write([]byte(p))
		h.Write([]byte{0xff})
	}
	return h.Sum64()
}

// HashBytes hashes a byte slice.
func HashBytes(b []byte) uint64 {
	h := fnv.New64a()
	h.Write(b)
	return h.Sum64()
}

// Rule states how cases are generated and what makes one non-trivial/distinct.
func Rule(s string) {
	c.mu.Lock()
	c.f.Rule = s
	c.mu.Unlock()
}

// Case records one evaluation of the oracle. sample is rendered lazily and
// only for a bounded number of non-trivial cases.
func Case(nontrivial bool, hash uint64, sample func() string) {
	c.mu.Lock()
	defer c.mu.Unlock()
	c.f.Evaluations++
	if !nontrivial {
		return
	}
	c.f.NonTrivial++
	if _, ok := c.hashes[hash]; !ok {
		if len(c.hashes) < maxHashes {
			c.hashes[hash] = struct{}{}
		} else {
			c.f.HashOverflow++
		}
	}
	if sample != nil {
		c.seenSmp++
		// deterministic "reservoir": keep cases number 1,2,4,8,... so samples span the run
		if len(c.f.Samples) < maxSamples && (c.seenSmp&(c.seenSmp-1)) == 0 {
			s := sample()
			if len(s) > 1500 {
				s = s[:1500] + "…(truncated)"
			}
			c.f.Samples = append(c.f.Samples, s)
		}
	}
}

// Evals adds n evaluations that are trivial (not counted as distinct non-trivial).
func Evals(n int64) {
	c.mu.Lock()
	c.f.Evaluations += n
	c.mu.Unlock()
}

func Label(name string) { LabelN(name, 1) }

func LabelN(name string, n int64) {
	c.mu.Lock()
	c.f.Labels[name] += n
	c.mu.Unlock()
}

func Note(s string) {
	c.mu.Lock()
	if !c.notes[s] {
		c.notes[s] = true
		c.f.Notes = append(c.f.Notes, s)
	}
	c.mu.Unlock()
}

func Assume(s string) {
	c.mu.Lock()
	if !c.notes["A:"+s] {
		c.notes["A:"+s] = true
		c.f.Assumptions = append(c.f.Assumptions, s)
	}
	c.mu.Unlock()
}

// Exhaustive records that a finite sub-space was enumerated completely.
func Exhaustive(scope string) {
	c.mu.Lock()
	c.f.Exhaustive = append(c.f.Exhaustive, scope)
	c.mu.Unlock()
}

func ExcludedKnown(n int64) {
	c.mu.Lock()
	c.f.ExcludedKnown += n
	c.mu.Unlock()
}

func Inconclusive(n int64) {
	c.mu.Lock()
	c.f.Inconclusive += n
	c.mu.Unlock()
}

// Flush writes the fragment; called from TestMain after m.Run().
func Flush() {
	out := os.Getenv("VERIF_EV_OUT")
	if out == "" {
		return
	}
	c.mu.Lock()
	defer c.mu.Unlock()
	c.f.DistinctNT = int64(len(c.hashes))
	hs := make([]uint64, 0, len(c.hashes))
	for h := range c.hashes {
		hs = append(hs, h)
	}
	sort.Slice(hs, func(i, j int) bool { return hs[i] < hs[j] })
	buf := make([]byte, 8*len(hs))
	for i, h := range hs {
		binary.LittleEndian.PutUint64(buf[8*i:], h)
	}
	_ = os.WriteFile(out+".hashes", buf, 0o644)
	js, _ := json.MarshalIndent(&c.f, "", " ")
	_ = os.WriteFile(out, js, 0o644)
}
