// C03 — Derived loggers are isolated: output depends only on own derivation chain.
package c03

import (
	"bytes"
	"context"
	"errors"
	"fmt"
	"log/slog"
	"math"
	"runtime"
	"strings"
	"sync"
	"sync/atomic"
	"testing"
	"time"

	"github.com/whoisnian/glb/logger"
	"pgregory.net/rapid"

	"verif/harness/internal/ev"
	lm "verif/harness/internal/logmodel"
	"verif/harness/internal/rt"
)

func TestMain(m *testing.M) {
	ev.Rule("cases = derivation-tree histories for each of the three handlers (rapid state machine: with(node, attrs) / withGroup(node, name) / log(node, record), biased so that parents carrying attributes get several children and older siblings log after younger ones were derived; every node logs again at the end), " +
		"plus a concurrent variant where K goroutines derive from one shared non-root parent and log (race detector on); oracle = every written line equals, modulo the masked time field, the line written by a logger built alone from a fresh root by replaying only that node's chain " +
		"and logging the same record; and With(a).Log(b) equals Log(a,b) (JSON: on decoded trees, tolerant to empty groups); " +
		"non-trivial = the tree has a node with non-empty pre-rendered attributes and >= 2 children and a log on an earlier child happened after a later child was derived; distinct by history hash")
	rt.Main(m)
}

var genOpts = lm.GenOpts{MaxDepth: 3, TextKinds: true}

type tnode struct {
	l        *logger.Logger
	chain    []lm.Step
	parent   int
	children []int
	hasAttrs bool // own chain contains a With step (pre-rendered bytes are non-empty)
}

type setup struct {
	kind      int
	colorful  bool
	addSource bool
}

func (s setup) String() string {
	return fmt.Sprintf("%s colorful=%v addSource=%v", lm.HandlerNames[s.kind], s.colorful, s.addSource)
}

func (s setup) fresh(sink *lm.Sink) *logger.Logger {
	return logger.New(lm.NewHandler(s.kind, sink, logger.NewOptions(logger.LevelDebug, s.colorful, s.addSource)))
}

type rec struct {
	level slog.Level
	msg   string
	attrs []lm.Node
	form  int
}

// replay logs the record through a logger built alone from a fresh root along chain.
func (s setup) replay(chain []lm.Step, r rec) []byte {
	sink := &lm.Sink{}
	l := lm.Derive(s.fresh(sink), chain)
	lm.Emit(l, r.form, r.level, r.msg, r.attrs)
	if len(sink.Writes) != 1 {
		return nil
	}
	return lm.MaskTime(s.kind, sink.Writes[0])
}

func short(b []byte) string {
	s := string(b)
	if len(s) > 700 {
		s = s[:700] + "…"
	}
	return s
}

func genRec(t *rapid.T) rec {
	return rec{
		level: rapid.SampledFrom(lm.Levels).Draw(t, "level"),
		msg:   lm.SmallString().Draw(t, "msg"),
		attrs: lm.GenNodes(genOpts, 3).Draw(t, "attrs"),
		form:  rapid.IntRange(0, lm.NumForms-1).Draw(t, "form"),
	}
}

type panicky struct{ why string }

func (p panicky) MarshalText() ([]byte, error) { panic("value: MarshalText " + p.why) }
func (p panicky) MarshalJSON() ([]byte, error) { panic("value: MarshalJSON " + p.why) }
func (p panicky) String() string               { panic("value: String " + p.why) }
func (p panicky) Error() string                { panic("value: Error " + p.why) }

func TestTreeHistories(t *testing.T) {
	rt.Check(t, 2500, 600000, func(t *rapid.T) {
		st := setup{kind: rapid.IntRange(0, 2).Draw(t, "handler"), colorful: rapid.IntRange(0, 3).Draw(t, "colorful") == 0, addSource: rapid.IntRange(0, 3).Draw(t, "addSource") == 0}
		sink := &lm.Sink{}
		nodes := []*tnode{{l: st.fresh(sink), parent: -1}}
		var hist []string
		nontrivial := false
		failed, refused := 0, 0
		pick := func(t *rapid.T, label string) int {
			// prefer nodes that carry attributes and already have children: that is where aliasing would bite
			var pref []int
			for i, n := range nodes {
				if n.hasAttrs {
					pref = append(pref, i)
				}
			}
			if len(pref) > 0 && rapid.IntRange(0, 3).Draw(t, label+"Pref") > 0 {
				return rapid.SampledFrom(pref).Draw(t, label)
			}
			return rapid.IntRange(0, len(nodes)-1).Draw(t, label)
		}
		doLog := func(t *rapid.T, i int, r rec) {
			n := nodes[i]
			sink.Reset()
			lm.Emit(n.l, r.form, r.level, r.msg, r.attrs)
			hist = append(hist, fmt.Sprintf("log(n%d, %s %q %s)", i, lm.LevelNames[r.level], r.msg, lm.RenderNodes(r.attrs)))
			if len(sink.Writes) != 1 {
				t.Fatalf("%d Write calls for one record\nsetup: %s\nhistory:\n  %s", len(sink.Writes), st, strings.Join(hist, "\n  "))
			}
			got := lm.MaskTime(st.kind, sink.Writes[0])
			want := st.replay(n.chain, r)
			if !bytes.Equal(got, want) {
				t.Fatalf("node n%d (chain %s) wrote\n  %s\nbut a logger built alone by replaying that chain writes\n  %s\nsetup: %s\nhistory:\n  %s", i, lm.RenderChain(n.chain), short(got), short(want), st, strings.Join(hist, "\n  "))
			}
			// was a younger sibling derived from a parent with attributes before this log?
			if n.parent >= 0 {
				p := nodes[n.parent]
				if p.hasAttrs && len(p.children) >= 2 && p.children[len(p.children)-1] != i {
					nontrivial = true
				}
			}
		}
		derive := func(parent int, step lm.Step) {
			p := nodes[parent]
			child := &tnode{l: lm.Derive(p.l, []lm.Step{step}), chain: append(append([]lm.Step{}, p.chain...), step), parent: parent, hasAttrs: p.hasAttrs || step.Group == ""}
			nodes = append(nodes, child)
			p.children = append(p.children, len(nodes)-1)
			hist = append(hist, fmt.Sprintf("n%d = n%d.%s", len(nodes)-1, parent, step.Render()))
		}
		t.Repeat(map[string]func(*rapid.T){
			"with": func(t *rapid.T) {
				if len(nodes) > 24 {
					t.Skip("tree large enough")
				}
				n := rapid.IntRange(1, 3).Draw(t, "nattrs")
				var as []lm.Node
				for i := 0; i < n; i++ {
					as = append(as, lm.GenNode(genOpts, 1).Draw(t, "attr"))
				}
				derive(pick(t, "parent"), lm.Step{With: as})
			},
			"withGroup": func(t *rapid.T) {
				if len(nodes) > 24 {
					t.Skip("tree large enough")
				}
				name := lm.SmallString().Filter(func(s string) bool { return s != "" }).Draw(t, "name")
				derive(pick(t, "parent"), lm.Step{Group: name})
			},
			"siblings": func(t *rapid.T) {
				// several children of one parent in a row, then log on the oldest
				if len(nodes) > 20 {
					t.Skip("tree large enough")
				}
				parent := pick(t, "parent")
				k := rapid.IntRange(2, 4).Draw(t, "k")
				first := len(nodes)
				for i := 0; i < k; i++ {
					derive(parent, lm.Step{With: []lm.Node{lm.GenNode(genOpts, 1).Draw(t, "attr")}})
				}
				doLog(t, first, genRec(t))
			},
			"log": func(t *rapid.T) {
				doLog(t, pick(t, "node"), genRec(t))
			},
			"refusedWrite": func(t *rapid.T) {
				// the destination refuses one write (a full pipe, a rotated file): the record that met it is lost, and that
				// is all - the logger that lost it, its parent and its siblings go on writing what they would have written
				n := nodes[pick(t, "node")]
				sink.Reset()
				sink.Fail, sink.FailedCalls = &lm.Failure{Times: 1, Accept: rapid.SampledFrom([]int{0, 0, 5, 1 << 20}).Draw(t, "acceptedBytes"), Kind: rapid.IntRange(0, 2).Draw(t, "errorKind")}, 0
				n.l.Warn("a record that meets a destination that refuses it", "k", 1)
				sink.Fail = nil
				refused++
				hist = append(hist, "a write refused by the destination")
			},
			"failedWith": func(t *rapid.T) {
				// a derivation (or a record) that does not come about: a value panics while it is rendered - a typed nil whose
				// Error() dereferences it, a buggy Marshaler - and the caller recovers. No logger results from it, and the
				// loggers that exist write what they would have written without the attempt.
				n := nodes[pick(t, "node")]
				bad := slog.Any("user", panicky{"in a derivation"})
				if rapid.Bool().Draw(t, "insideAGroup") {
					bad = slog.Group("req", slog.String("ok", "1"), slog.Group("at", bad))
				}
				asRecord := rapid.IntRange(0, 2).Draw(t, "asARecordInstead") == 0
				func() {
					defer func() { _ = recover() }()
					sink.Reset()
					if asRecord {
						n.l.Info("a record that may not come about", slog.String("first", "x"), bad)
					} else {
						_ = n.l.With(slog.String("first", "x"), bad)
					}
				}()
				failed++
				hist = append(hist, fmt.Sprintf("recover(n.With/Info(... %v)) asRecord=%v", bad.Key, asRecord))
			},
		})
		// every node logs once more at the end, oldest first
		final := rec{level: logger.LevelInfo, msg: "final", attrs: []lm.Node{{Key: "k", Kind: lm.KInt64, I: 7}}, form: 2}
		for i := range nodes {
			doLog(t, i, final)
		}
		ev.Label("handler:" + lm.HandlerNames[st.kind])
		if failed > 0 {
			ev.Label("history_with_a_derivation_or_record_whose_value_panics")
		}
		if refused > 0 {
			ev.Label("history_with_a_write_the_destination_refused")
		}
		ev.Case(nontrivial, ev.Hash(append([]string{st.String()}, hist...)...), func() string { return st.String() + ": " + strings.Join(hist, "; ") })
	})
}

// ---- With(a).Log(b) == Log(a, b) ----

func stripEmptyObjects(v lm.JVal) (lm.JVal, bool) {
	switch v.Kind {
	case lm.JObject:
		out := lm.JVal{Kind: lm.JObject}
		for _, m := range v.Members {
			if mv, keep := stripEmptyObjects(m.Val); keep {
				out.Members = append(out.Members, lm.JMember{Key: m.Key, Val: mv})
			}
		}
		return out, len(out.Members) > 0
	}
	return v, true
}

func TestWithEqualsCallSite(t *testing.T) {
	rt.Check(t, 2500, 150000, func(t *rapid.T) {
		st := setup{kind: rapid.IntRange(0, 2).Draw(t, "handler"), colorful: false, addSource: rapid.Bool().Draw(t, "addSource")}
		if st.kind != lm.HJson {
			// colour on for the two line formats (a coloured JSON line is not JSON any more, see C01): what colour does to
			// a value - AnsiString prefixes, level labels - must be the same whichever way the attribute came in
			st.colorful = rapid.Bool().Draw(t, "colorful")
		}
		ctxChain := lm.GenChain(genOpts, 3).Draw(t, "context")
		if rapid.IntRange(0, 24).Draw(t, "deepContext") == 0 {
			ctxChain = lm.GenDeepChain(genOpts).Draw(t, "deep") // the With happens below many open groups
		}
		a := lm.GenNodes(genOpts, 3).Draw(t, "a")
		b := lm.GenNodes(genOpts, 3).Draw(t, "b")
		if len(a) == 0 {
			a = []lm.Node{lm.GenNode(genOpts, 1).Draw(t, "a0")}
		}
		if rapid.IntRange(0, 3).Draw(t, "ansiInWith") == 0 {
			a = append(a, lm.Node{Key: "tag", Kind: lm.KAnsi, S: lm.SmallString().Draw(t, "ansi")})
		}
		// a logger that carries something big (a request body, a stack, a blob) and then more: sizes around the buffer
		// sizes a handler may pool or pre-size, in the With under test or in an earlier one
		if big := rapid.IntRange(0, 7).Draw(t, "bigAttribute"); big < 2 {
			n := rapid.SampledFrom([]int{1000, 4090, 8190, 16300, 16384, 16400, 17000, 33000, 66000, 140000}).Draw(t, "bigSize")
			node := lm.Node{Key: "body", Kind: lm.KString, S: strings.Repeat(rapid.SampledFrom([]string{"x", "ab ", "é", "\"", "\n"}).Draw(t, "bigUnit"), n)}
			if big == 0 {
				a = append([]lm.Node{node}, a...)
			} else {
				ctxChain = append(append([]lm.Step{}, ctxChain...), lm.Step{With: []lm.Node{node}})
			}
			ev.Label("withEq:big_attribute_then_more")
		}
		level := rapid.SampledFrom(lm.Levels).Draw(t, "level")
		msg := lm.SmallString().Draw(t, "msg")
		form := rapid.IntRange(0, 3).Draw(t, "form") // only entry points that take attributes
		s1, s2 := &lm.Sink{}, &lm.Sink{}
		l1 := lm.Derive(st.fresh(s1), append(append([]lm.Step{}, ctxChain...), lm.Step{With: a}))
		l2 := lm.Derive(st.fresh(s2), ctxChain)
		lm.Emit(l1, form, level, msg, b)
		lm.Emit(l2, form, level, msg, append(append([]lm.Node{}, a...), b...))
		if len(s1.Writes) != 1 || len(s2.Writes) != 1 {
			t.Fatalf("writes: %d and %d", len(s1.Writes), len(s2.Writes))
		}
		w1, w2 := lm.MaskTime(st.kind, s1.Writes[0]), lm.MaskTime(st.kind, s2.Writes[0])
		describe := func() string {
			return fmt.Sprintf("setup: %s context=%s a=%s b=%s msg=%q\n  With(a).Log(b): %s\n  Log(a, b):      %s", st, lm.RenderChain(ctxChain), lm.RenderNodes(a), lm.RenderNodes(b), msg, short(w1), short(w2))
		}
		if st.kind == lm.HJson {
			j1, e1 := lm.DecodeOne(w1)
			j2, e2 := lm.DecodeOne(w2)
			if e1 != nil || e2 != nil {
				t.Fatalf("line is not JSON (%v / %v)\n%s", e1, e2, describe())
			}
			n1, _ := stripEmptyObjects(j1)
			n2, _ := stripEmptyObjects(j2)
			if n1.String() != n2.String() {
				t.Fatalf("With(a).Log(b) and Log(a, b) differ (decoded, empty groups ignored)\n%s", describe())
			}
		} else if !bytes.Equal(w1, w2) {
			t.Fatalf("With(a).Log(b) and Log(a, b) differ\n%s", describe())
		}
		ngroups := 0
		for _, s := range ctxChain {
			if s.Group != "" {
				ngroups++
			}
		}
		ev.Label("withEq:" + lm.HandlerNames[st.kind])
		ev.Case(ngroups > 0 || len(a) > 1, ev.Hash("witheq", st.String(), lm.RenderChain(ctxChain), lm.RenderNodes(a), lm.RenderNodes(b), msg), func() string {
			return fmt.Sprintf("With≡call-site %s context=%s a=%s b=%s", st, lm.RenderChain(ctxChain), lm.RenderNodes(a), lm.RenderNodes(b))
		})
	})
}

// TestWithRawArgsEqualsCallSite: the same relation for raw argument lists as a caller may write them - a key followed
// by an slog.Attr as its value, ready-made Attrs between pairs, values without a key, a dangling key at the end, nil.
// No model of the rendering is needed: whatever the call site makes of the list, With must make the same of it.
func TestWithRawArgsEqualsCallSite(t *testing.T) {
	rt.Check(t, 2500, 150000, func(t *rapid.T) {
		st := setup{kind: rapid.IntRange(0, 2).Draw(t, "handler"), colorful: false, addSource: false}
		ctxChain := lm.GenChain(genOpts, 2).Draw(t, "context")
		genValue := rapid.Custom(func(t *rapid.T) any {
			switch rapid.IntRange(0, 9).Draw(t, "valueKind") {
			case 8:
				// every Go scalar type a caller may write after a key, at the edges of its range: what With makes of the
				// pair is what the call site makes of it
				return rapid.SampledFrom([]any{uint64(math.MaxUint64), uint64(1) << 63, uint64(1)<<63 - 1, uint64(0), uint(math.MaxUint64), uint32(math.MaxUint32), uint16(65535), uint8(255), uintptr(math.MaxUint64),
					int8(-128), int16(-32768), int32(math.MinInt32), int(math.MinInt64), int64(math.MaxInt64), float32(1.5), float32(math.MaxFloat32), math.MaxFloat64, math.SmallestNonzeroFloat64, math.Inf(-1), -0.0,
					'x', byte('y'), complex(1, 2), time.Duration(math.MinInt64), time.Duration(90 * time.Minute), time.Unix(0, 0).UTC(), time.Date(2262, 4, 11, 23, 47, 16, 854775807, time.UTC)}).Draw(t, "scalar")
			case 9:
				return rapid.OneOf(rapid.Custom(func(t *rapid.T) any { return rapid.Uint64().Draw(t, "u64") }), rapid.Custom(func(t *rapid.T) any { return rapid.Float64().Draw(t, "f64") }),
					rapid.Custom(func(t *rapid.T) any { return uint(rapid.Uint64().Draw(t, "u")) }), rapid.Custom(func(t *rapid.T) any { return rapid.Int32().Draw(t, "i32") })).Draw(t, "number")
			case 0:
				return lm.SmallString().Draw(t, "s")
			case 1:
				return rapid.Int64().Draw(t, "i")
			case 2:
				return rapid.Bool().Draw(t, "b")
			case 3:
				return nil
			case 4:
				return slog.Int("inner", rapid.IntRange(0, 9).Draw(t, "inner")) // an Attr in value position
			case 5:
				return slog.Group("g", slog.String("m", lm.SmallString().Draw(t, "m")))
			case 6:
				return errors.New("e" + lm.SmallString().Draw(t, "e"))
			default:
				return slog.StringValue(lm.SmallString().Draw(t, "sv"))
			}
		})
		var args []any
		var shape []string
		n := rapid.IntRange(1, 5).Draw(t, "items")
		for i := 0; i < n; i++ {
			switch rapid.IntRange(0, 5).Draw(t, "item") {
			case 0, 1:
				args = append(args, lm.SmallString().Draw(t, "key"), genValue.Draw(t, "value"))
				shape = append(shape, "pair")
			case 2:
				args = append(args, slog.String(lm.SmallString().Draw(t, "akey"), lm.SmallString().Draw(t, "aval")))
				shape = append(shape, "attr")
			case 3:
				args = append(args, rapid.SampledFrom([]any{42, nil, 3.5, true, []int{1}}).Draw(t, "bare"))
				shape = append(shape, "bareValue")
			case 4:
				args = append(args, "k"+lm.SmallString().Draw(t, "key2"), slog.Int("a", i))
				shape = append(shape, "keyThenAttr")
			default:
				if i == n-1 {
					args = append(args, "dangling"+lm.SmallString().Draw(t, "dk"))
					shape = append(shape, "danglingKey")
				}
			}
		}
		if len(args) == 0 {
			args = []any{"k", 1}
			shape = []string{"pair"}
		}
		level := rapid.SampledFrom(lm.Levels).Draw(t, "level")
		s1, s2 := &lm.Sink{}, &lm.Sink{}
		l1 := lm.Derive(st.fresh(s1), ctxChain).With(args...)
		l2 := lm.Derive(st.fresh(s2), ctxChain)
		l1.Log(context.Background(), level, "m")
		l2.Log(context.Background(), level, "m", args...)
		if len(s1.Writes) != 1 || len(s2.Writes) != 1 {
			t.Fatalf("writes: %d and %d", len(s1.Writes), len(s2.Writes))
		}
		w1, w2 := lm.MaskTime(st.kind, s1.Writes[0]), lm.MaskTime(st.kind, s2.Writes[0])
		describe := func() string {
			return fmt.Sprintf("setup: %s context=%s args=%#v\n  With(args).Log(): %s\n  Log(args...):     %s", st, lm.RenderChain(ctxChain), args, short(w1), short(w2))
		}
		if st.kind == lm.HJson {
			j1, e1 := lm.DecodeOne(w1)
			j2, e2 := lm.DecodeOne(w2)
			if e1 != nil || e2 != nil {
				t.Fatalf("line is not JSON (%v / %v)\n%s", e1, e2, describe())
			}
			n1, _ := stripEmptyObjects(j1)
			n2, _ := stripEmptyObjects(j2)
			if n1.String() != n2.String() {
				t.Fatalf("With(args).Log() and Log(args...) differ (decoded, empty groups ignored)\n%s", describe())
			}
		} else if !bytes.Equal(w1, w2) {
			t.Fatalf("With(args).Log() and Log(args...) differ\n%s", describe())
		}
		for _, sh := range shape {
			ev.Label("rawargs:" + sh)
		}
		ev.Case(len(shape) > 1, ev.Hash("rawargs", st.String(), lm.RenderChain(ctxChain), fmt.Sprintf("%#v", args)), func() string {
			return fmt.Sprintf("With≡call-site on raw args %s context=%s args=%#v", st, lm.RenderChain(ctxChain), args)
		})
	})
}

// ---- concurrent derivation from a shared parent (run under -race) ----

func TestConcurrentDerive(t *testing.T) {
	rt.Check(t, 150, 30000, func(t *rapid.T) {
		st := setup{kind: rapid.IntRange(0, 2).Draw(t, "handler")}
		sink := &lm.Sink{}
		if rapid.Bool().Draw(t, "destinationTakesWritesInPieces") {
			sink.Piece = rapid.SampledFrom([]int{1, 7, 16, 64}).Draw(t, "piece")
		}
		parentChain := []lm.Step{{With: []lm.Node{lm.GenNode(genOpts, 1).Draw(t, "p0")}}}
		if rapid.Bool().Draw(t, "deeper") {
			parentChain = append(parentChain, lm.Step{Group: "grp"}, lm.Step{With: []lm.Node{lm.GenNode(genOpts, 1).Draw(t, "p1")}})
		}
		// several parents with the same chain, each derived from for the first time by all goroutines at once (the
		// goroutines meet at a barrier before every round): the first derivation from a handler is a moment of its own
		rounds := rapid.SampledFrom([]int{1, 4, 16, 48}).Draw(t, "rounds")
		parents := make([]*logger.Logger, rounds)
		for r := range parents {
			parents[r] = lm.Derive(st.fresh(sink), parentChain)
		}
		k := rapid.IntRange(2, 8).Draw(t, "goroutines")
		type job struct {
			step lm.Step
			recs []rec
		}
		jobs := make([]job, k)
		for i := range jobs {
			if rapid.IntRange(0, 4).Draw(t, "grp") == 0 {
				jobs[i].step = lm.Step{Group: fmt.Sprintf("g%d", i)}
			} else {
				jobs[i].step = lm.Step{With: []lm.Node{{Key: fmt.Sprintf("child%d", i), Kind: lm.KString, S: strings.Repeat("x", rapid.IntRange(0, 40).Draw(t, "len"))}, lm.GenNode(genOpts, 1).Draw(t, "cattr")}}
			}
			n := rapid.IntRange(1, 4).Draw(t, "nrecs")
			for j := 0; j < n; j++ {
				r := genRec(t)
				r.msg = fmt.Sprintf("id-%d-%d", i, j)
				jobs[i].recs = append(jobs[i].recs, r)
			}
		}
		var wg sync.WaitGroup
		var arrived atomic.Int64
		start := make(chan struct{})
		for i := range jobs {
			wg.Add(1)
			go func(j job) {
				defer wg.Done()
				<-start
				for r, parent := range parents {
					arrived.Add(1)
					for spin := 0; arrived.Load() < int64((r+1)*k); spin++ {
						if spin > 200 {
							runtime.Gosched()
						}
					}
					child := lm.Derive(parent, []lm.Step{j.step})
					for _, rc := range j.recs {
						lm.Emit(child, rc.form, rc.level, fmt.Sprintf("%s-r%d", rc.msg, r), rc.attrs)
					}
				}
			}(jobs[i])
		}
		close(start)
		wg.Wait()
		// the parents themselves must be unchanged as well
		for r, parent := range parents {
			lm.Emit(parent, 2, logger.LevelInfo, fmt.Sprintf("id-parent-r%d", r), nil)
		}
		if sink.Torn > 0 {
			t.Fatalf("%s: %d records reached a destination that takes each Write in pieces with the bytes of a record logged through a sibling or the parent in between; each of these loggers used alone delivers its lines whole (parent chain %s)", st, sink.Torn, lm.RenderChain(parentChain))
		}
		if sink.Piece > 0 {
			ev.Label("concurrent:destination_takes_writes_in_pieces")
		}
		got := map[string][]byte{}
		for _, w := range sink.Writes {
			m := lm.MaskTime(st.kind, w)
			i := bytes.Index(m, []byte("id-"))
			if i < 0 {
				t.Fatalf("a written line carries no record id: %s", short(m))
			}
			j := i
			for j < len(m) && (m[j] == '-' || m[j] >= '0' && m[j] <= '9' || m[j] >= 'a' && m[j] <= 'z') {
				j++
			}
			id := string(m[i:j])
			if _, dup := got[id]; dup {
				t.Fatalf("record %s written twice", id)
			}
			got[id] = m
		}
		check := func(id string, chain []lm.Step, r rec) {
			want := st.replay(chain, r)
			if !bytes.Equal(got[id], want) {
				t.Fatalf("%s, record %s derived concurrently from a shared parent wrote\n  %s\nreplayed alone:\n  %s\nparent chain: %s", st, id, short(got[id]), short(want), lm.RenderChain(parentChain))
			}
		}
		for r := range parents {
			for _, j := range jobs {
				for _, rc := range j.recs {
					rc.msg = fmt.Sprintf("%s-r%d", rc.msg, r)
					check(rc.msg, append(append([]lm.Step{}, parentChain...), j.step), rc)
				}
			}
			id := fmt.Sprintf("id-parent-r%d", r)
			check(id, parentChain, rec{level: logger.LevelInfo, msg: id, form: 2})
		}
		ev.LabelN("first_derivations_raced", int64(rounds))
		ev.Label("concurrent:" + lm.HandlerNames[st.kind])
		ev.Case(k >= 2, ev.Hash("conc", st.String(), lm.RenderChain(parentChain), fmt.Sprint(k), fmt.Sprint(len(sink.Writes))), func() string {
			return fmt.Sprintf("%s: %d goroutines derive from each of %d parents %s at the same time and log %d records", st, k, rounds, lm.RenderChain(parentChain), len(sink.Writes)-rounds)
		})
	})
}

func TestRegression(t *testing.T) {
	// two children of a parent whose pre-rendered buffer has spare capacity
	for kind := 0; kind < 3; kind++ {
		st := setup{kind: kind}
		sink := &lm.Sink{}
		s := func(k, v string) lm.Node { return lm.Node{Key: k, Kind: lm.KString, S: v} }
		pchain := []lm.Step{{With: []lm.Node{s("p", "parent-attribute")}}, {With: []lm.Node{s("q", "second")}}}
		parent := lm.Derive(st.fresh(sink), pchain)
		a := parent.With(s("a", "AAAAAAAA").Attr())
		b := parent.With(s("b", "BBBBBBBB").Attr())
		r := rec{level: logger.LevelInfo, msg: "m", form: 2}
		for _, c := range []struct {
			l    *logger.Logger
			step lm.Step
		}{{a, lm.Step{With: []lm.Node{s("a", "AAAAAAAA")}}}, {b, lm.Step{With: []lm.Node{s("b", "BBBBBBBB")}}}} {
			sink.Reset()
			lm.Emit(c.l, r.form, r.level, r.msg, r.attrs)
			want := st.replay(append(append([]lm.Step{}, pchain...), c.step), r)
			if len(sink.Writes) != 1 || !bytes.Equal(lm.MaskTime(kind, sink.Writes[0]), want) {
				t.Errorf("%s: sibling wrote %q, replay %q", st, sink.Writes, want)
			}
		}
		ev.Case(true, ev.Hash("reg", st.String()), func() string { return st.String() + ": two siblings of a parent with attributes" })
	}
	// odd trailing key and non-string keys go to !BADKEY exactly as at the call site
	for kind := 0; kind < 3; kind++ {
		st := setup{kind: kind}
		s1, s2 := &lm.Sink{}, &lm.Sink{}
		st.fresh(s1).With("a", 1, 2, "b").Info("m", "c", 3, "d")
		st.fresh(s2).Info("m", "a", 1, 2, "b", "c", 3, "d")
		// the call-site form pairs ("b","c") differently, so compare With against its own documented meaning instead
		s3 := &lm.Sink{}
		st.fresh(s3).Info("m", slog.Int("a", 1), slog.Any("!BADKEY", 2), slog.String("!BADKEY", "b"), slog.Int("c", 3), slog.String("!BADKEY", "d"))
		if len(s1.Writes) != 1 || len(s3.Writes) != 1 || !bytes.Equal(lm.MaskTime(kind, s1.Writes[0]), lm.MaskTime(kind, s3.Writes[0])) {
			t.Errorf("%s: With(\"a\",1,2,\"b\").Info(\"m\",\"c\",3,\"d\") wrote %q, want %q", st, s1.Writes, s3.Writes)
		}
		ev.Case(true, ev.Hash("badkey", st.String()), nil)
	}
}

// ---- one attribute value shared by the loggers of a tree ----

// TestSharedAttrAcrossLoggers: a program keeps one attribute value in a variable - a group with a deferred value inside
// that differs every time it is resolved - and hands it to the loggers of a tree in turn: to With on one, at the call
// site of its parent, to With on a sibling. What each of them writes is what a logger built alone from a fresh root
// writes when it is given an attribute value of its own (of the same shape, at the same count): a derivation, or a
// record, on one logger leaves the caller's value as it was for the next.
func TestSharedAttrAcrossLoggers(t *testing.T) {
	rt.Check(t, 600, 100000, func(t *rapid.T) {
		st := setup{kind: rapid.IntRange(0, 2).Draw(t, "handler")}
		ra := lm.GenReusedAttr().Draw(t, "attr")
		sink := &lm.Sink{}
		type node struct {
			l     *logger.Logger
			chain []lm.Step
		}
		nodes := []node{{l: st.fresh(sink)}}
		for i, n := 0, rapid.IntRange(0, 3).Draw(t, "plainDerivations"); i < n; i++ {
			p := nodes[rapid.IntRange(0, len(nodes)-1).Draw(t, "parent")]
			step := lm.Step{Group: fmt.Sprintf("grp%d", i)}
			if rapid.Bool().Draw(t, "with") {
				step = lm.Step{With: []lm.Node{{Key: fmt.Sprintf("k%d", i), Kind: lm.KInt64, I: int64(i)}}}
			}
			nodes = append(nodes, node{l: lm.Derive(p.l, []lm.Step{step}), chain: append(append([]lm.Step{}, p.chain...), step)})
		}
		uses := rapid.IntRange(2, 6).Draw(t, "uses")
		var hist []string
		for i := 1; i <= uses; i++ {
			nd := nodes[rapid.IntRange(0, len(nodes)-1).Draw(t, "node")]
			how := rapid.IntRange(0, 2).Draw(t, "how")
			hist = append(hist, fmt.Sprintf("use %d: %s on the logger derived by %s", i, []string{"Log(attr)", "With(attr).Info", "Error(attr)"}[how], lm.RenderChain(nd.chain)))
			use := func(l *logger.Logger, a slog.Attr) {
				switch how {
				case 0:
					l.Log(context.Background(), logger.LevelInfo, "m", a)
				case 1:
					l.With(a).Info("m")
				default:
					l.Error("m", a)
				}
			}
			sink.Reset()
			use(nd.l, ra.Attr)
			alone := &lm.Sink{}
			use(lm.Derive(st.fresh(alone), nd.chain), ra.Fresh(int64(i)))
			if len(sink.Writes) != 1 || len(alone.Writes) != 1 {
				t.Fatalf("%d and %d Write calls for one record", len(sink.Writes), len(alone.Writes))
			}
			got, want := lm.MaskTime(st.kind, sink.Writes[0]), lm.MaskTime(st.kind, alone.Writes[0])
			if !bytes.Equal(got, want) {
				t.Fatalf("%s: the loggers of one tree were handed the same attribute value (%s) in turn\n  %s\nthe last of them wrote\n  %s\na logger built alone from a fresh root, given a value of its own, writes\n  %s", st, ra.Desc, strings.Join(hist, "\n  "), short(got), short(want))
			}
		}
		ev.Label("one_attribute_value_shared_by_the_loggers_of_a_tree:" + lm.HandlerNames[st.kind])
		ev.Case(true, ev.Hash("shared", st.String(), ra.Desc, strings.Join(hist, ";")), func() string { return st.String() + ": " + strings.Join(hist, "; ") })
	})
}
