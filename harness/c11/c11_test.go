// C11 — IPv4Filter answers membership exactly as the set of CIDRs added and not removed.
package c11

import (
	"bytes"
	"encoding/binary"
	"errors"
	"fmt"
	"net"
	"strings"
	"testing"

	"github.com/whoisnian/glb/util/netutil"
	"pgregory.net/rapid"

	"verif/harness/internal/ev"
	"verif/harness/internal/rt"
)

func TestMain(m *testing.M) {
	ev.Rule("cases = operation histories (add / remove / bulk add / invalid argument / probe) on one IPv4Filter, produced by a rapid state machine guided by a set-of-prefixes model, " +
		"plus byte-decoded histories in the fuzz target; after every step the touched and a sample of all mentioned prefixes are probed at first/last address and outside neighbours, in 4- and 16-byte form; " +
		"non-trivial = the history crosses 256 valid adds with at least one removed slot before the crossing and a remove after it; distinct by history hash")
	rt.Main(m)
}

type prefix struct {
	net  uint32
	ones int
}

func mask(ones int) uint32 {
	if ones == 0 {
		return 0
	}
	return ^uint32(0) << (32 - ones)
}

func (p prefix) String() string {
	return fmt.Sprintf("%d.%d.%d.%d/%d", byte(p.net>>24), byte(p.net>>16), byte(p.net>>8), byte(p.net), p.ones)
}

func ip4(v uint32) net.IP {
	b := make(net.IP, 4)
	binary.BigEndian.PutUint32(b, v)
	return b
}

// ipnet builds the argument the way net.ParseCIDR would (4-byte IP, 4-byte mask); raw may carry host bits.
func ipnet(raw uint32, ones int) *net.IPNet {
	return &net.IPNet{IP: ip4(raw), Mask: net.CIDRMask(ones, 32)}
}

// ---- model ----

type model struct {
	set      map[prefix]bool
	matchAll bool
}

func (m *model) contains(v uint32) bool {
	if m.matchAll {
		return true
	}
	for p := range m.set {
		if v&mask(p.ones) == p.net {
			return true
		}
	}
	return false
}

// ---- system under test + history ----

type sys struct {
	f         *netutil.IPv4Filter
	m         model
	mentioned []prefix // every prefix ever used in add/remove (canonical), in order, no duplicates
	seen      map[prefix]bool
	validAdds int // number of successful non-/0 Add calls (what fills the internal list)
	hist      []string
	// classification
	removedBeforeCross bool
	removedAny         bool
	crossed            bool
	removeAfterCross   bool
}

func newSys() *sys {
	return &sys{f: netutil.NewIPv4Filter(), m: model{set: map[prefix]bool{}}, seen: map[prefix]bool{}}
}

func (s *sys) mention(p prefix) {
	if !s.seen[p] {
		s.seen[p] = true
		s.mentioned = append(s.mentioned, p)
	}
}

func (s *sys) add(raw uint32, ones int) string {
	p := prefix{raw & mask(ones), ones}
	s.hist = append(s.hist, "add "+ipnet(raw, ones).String())
	arg := ipnet(raw, ones)
	keepIP, keepMask := append(net.IP(nil), arg.IP...), append(net.IPMask(nil), arg.Mask...)
	if err := s.f.Add(arg); err != nil {
		return fmt.Sprintf("Add(%v) returned %v for a valid IPv4 CIDR", ipnet(raw, ones), err)
	}
	if !bytes.Equal(arg.IP, keepIP) || !bytes.Equal(arg.Mask, keepMask) {
		// the caller's value is the caller's: a program that goes on using its address slice (with a longer prefix, as a
		// probe) means the address it wrote there
		return fmt.Sprintf("Add changed its argument: %v/%v was handed in, %v/%v is what the caller holds afterwards", keepIP, keepMask, arg.IP, arg.Mask)
	}
	if ones == 0 {
		s.m.matchAll = true
	} else {
		s.m.set[p] = true
		s.validAdds++
		if s.validAdds > 256 && !s.crossed {
			s.crossed = true
			s.removedBeforeCross = s.removedAny
		}
	}
	s.mention(p)
	return ""
}

func (s *sys) remove(raw uint32, ones int) string {
	p := prefix{raw & mask(ones), ones}
	s.hist = append(s.hist, "remove "+ipnet(raw, ones).String())
	arg := ipnet(raw, ones)
	keepIP, keepMask := append(net.IP(nil), arg.IP...), append(net.IPMask(nil), arg.Mask...)
	if err := s.f.Remove(arg); err != nil {
		return fmt.Sprintf("Remove(%v) returned %v for a valid IPv4 CIDR", ipnet(raw, ones), err)
	}
	if !bytes.Equal(arg.IP, keepIP) || !bytes.Equal(arg.Mask, keepMask) {
		return fmt.Sprintf("Remove changed its argument: %v/%v was handed in, %v/%v is what the caller holds afterwards", keepIP, keepMask, arg.IP, arg.Mask)
	}
	if ones == 0 {
		s.m.matchAll = false
	} else {
		if s.m.set[p] {
			s.removedAny = true
			if s.crossed {
				s.removeAfterCross = true
			}
		}
		delete(s.m.set, p)
	}
	s.mention(p)
	return ""
}

// mixed is Add/Remove with the range spelled as a 16-byte IPv4 address and a 4-byte mask (what
// &net.IPNet{IP: net.IPv4(10,0,0,0), Mask: net.CIDRMask(8,32)} gives). The statement leaves open whether that counts as
// an IPv4 CIDR: the filter may reject it with the sentinel - then nothing changes - or accept it - then it is the range
// it spells, exactly as in the 4-byte form.
func (s *sys) mixed(raw uint32, ones int, remove bool) string {
	p := prefix{raw & mask(ones), ones}
	n := &net.IPNet{IP: net.IPv4(byte(raw>>24), byte(raw>>16), byte(raw>>8), byte(raw)), Mask: net.CIDRMask(ones, 32)}
	var err error
	if remove {
		err = s.f.Remove(n)
	} else {
		err = s.f.Add(n)
	}
	what := map[bool]string{false: "add", true: "remove"}[remove]
	if errors.Is(err, netutil.ErrInvalidIPv4CIDR) {
		s.hist = append(s.hist, what+"-16-byte-ip "+p.String()+" (rejected)")
		return ""
	}
	if err != nil {
		return fmt.Sprintf("%s of %v spelled with a 16-byte IP returned %v (neither nil nor ErrInvalidIPv4CIDR)", what, p, err)
	}
	s.hist = append(s.hist, what+"-16-byte-ip "+p.String()+" (accepted)")
	switch {
	case ones == 0:
		s.m.matchAll = !remove
	case remove:
		delete(s.m.set, p)
	default:
		s.m.set[p] = true
		s.validAdds++
		if s.validAdds > 256 && !s.crossed {
			s.crossed = true
			s.removedBeforeCross = s.removedAny
		}
	}
	s.mention(p)
	return ""
}

// invalid arguments: must be rejected with the sentinel and change nothing.
func invalidArgs() []struct {
	name string
	n    *net.IPNet
} {
	return []struct {
		name string
		n    *net.IPNet
	}{
		{"ipv6 net", &net.IPNet{IP: net.ParseIP("2001:db8::"), Mask: net.CIDRMask(32, 128)}},
		{"ipv6 /0", &net.IPNet{IP: net.ParseIP("::"), Mask: net.CIDRMask(0, 128)}},
		{"ipv6 /128", &net.IPNet{IP: net.ParseIP("::1"), Mask: net.CIDRMask(128, 128)}},
		{"non-contiguous mask", &net.IPNet{IP: net.IP{10, 0, 0, 0}, Mask: net.IPMask{255, 0, 255, 0}}},
		{"16-byte mask on 4-byte ip", &net.IPNet{IP: net.IP{10, 0, 0, 0}, Mask: net.CIDRMask(104, 128)}},
		{"nil mask", &net.IPNet{IP: net.IP{10, 0, 0, 0}, Mask: nil}},
		{"nil ip", &net.IPNet{IP: nil, Mask: net.CIDRMask(8, 32)}},
		{"empty mask", &net.IPNet{IP: net.IP{10, 0, 0, 0}, Mask: net.IPMask{}}},
		{"3-byte ip", &net.IPNet{IP: net.IP{10, 0, 0}, Mask: net.CIDRMask(8, 32)}},
		{"v4-mapped ipv6 net /104", &net.IPNet{IP: net.ParseIP("10.0.0.0").To16(), Mask: net.CIDRMask(104, 128)}},
	}
}

func (s *sys) invalid(idx int, remove bool) string {
	a := invalidArgs()[idx%len(invalidArgs())]
	var err error
	if remove {
		s.hist = append(s.hist, "remove-invalid "+a.name)
		err = s.f.Remove(a.n)
	} else {
		s.hist = append(s.hist, "add-invalid "+a.name)
		err = s.f.Add(a.n)
	}
	if !errors.Is(err, netutil.ErrInvalidIPv4CIDR) {
		return fmt.Sprintf("%s with %s: got error %v, want ErrInvalidIPv4CIDR", map[bool]string{false: "Add", true: "Remove"}[remove], a.name, err)
	}
	return ""
}

func (s *sys) probeOne(v uint32) string {
	want := s.m.contains(v)
	a := ip4(v)
	if got := s.f.Contains(a); got != want {
		return fmt.Sprintf("Contains(%v as 4-byte) = %v, model says %v", a, got, want)
	}
	b := a.To16()
	if got := s.f.Contains(b); got != want {
		return fmt.Sprintf("Contains(%v as 16-byte) = %v, model says %v", a, got, want)
	}
	if !s.m.matchAll && want {
		// an address that is not an IPv4 address at all lies in no IPv4 range, whatever its last four bytes say (with
		// 0.0.0.0/0 present "matches everything" is taken at its word and nothing is asserted)
		for _, head := range [][]byte{{0x20, 0x01, 0x0d, 0xb8, 0, 0, 0, 0, 0, 0, 0, 0}, {0, 0, 0, 0, 0, 0, 0, 0, 0, 0, 0, 0}, {0, 0x64, 0xff, 0x9b, 0, 0, 0, 0, 0, 0, 0, 0}, {0xfe, 0x80, 0, 0, 0, 0, 0, 0, 0, 0, 0, 1}, {0, 0, 0, 0, 0, 0, 0, 0, 0, 0, 0xff, 0xfe}} {
			six := net.IP(append(append([]byte{}, head...), a...))
			if s.f.Contains(six) {
				return fmt.Sprintf("Contains(%v) = true: an IPv6 address, not a 16-byte IPv4 address (its last four bytes are %v, which a present range covers)", six, a)
			}
		}
		for _, odd := range []net.IP{nil, {}, a[:3], append(append(net.IP{}, a...), 0), append(net.IP{0}, a...)} {
			if s.f.Contains(odd) {
				return fmt.Sprintf("Contains(% x) = true for a %d-byte value that is no IP address", []byte(odd), len(odd))
			}
		}
	}
	if !a.Equal(ip4(v)) || !b.Equal(ip4(v)) || len(a) != 4 || len(b) != 16 {
		return fmt.Sprintf("Contains changed the address it was asked about: %v became %v / %v", ip4(v), a, b)
	}
	return ""
}

func (s *sys) probePrefix(p prefix) string {
	first := p.net
	last := p.net | ^mask(p.ones)
	for _, v := range []uint32{first, last, first - 1, last + 1} {
		if msg := s.probeOne(v); msg != "" {
			return msg + " (boundary probe of " + p.String() + ")"
		}
	}
	return ""
}

func (s *sys) probeAll() string {
	for _, p := range s.mentioned {
		if msg := s.probePrefix(p); msg != "" {
			return msg
		}
	}
	return ""
}

func (s *sys) render() string {
	h := s.hist
	if len(h) > 40 {
		h = append(append([]string{}, h[:20]...), fmt.Sprintf("…(%d more)…", len(h)-30))
		h = append(h, s.hist[len(s.hist)-10:]...)
	}
	return fmt.Sprintf("%d ops, validAdds=%d: %s", len(s.hist), s.validAdds, strings.Join(h, "; "))
}

func (s *sys) nontrivial() bool { return s.crossed && s.removedBeforeCross && s.removeAfterCross }

// ---- generators ----

var poolPrefixes = []prefix{
	{0, 0}, {0x80000000, 1}, {0x00000000, 1}, {0x0a000000, 8}, {0x0a010000, 16}, {0x0a010200, 24}, {0x0a010203, 32},
	{0x0a010202, 31}, {0x0a010204, 31}, {0xffffffff, 32}, {0x00000000, 32}, {0xfffffffe, 31}, {0xc0a80000, 16}, {0xc0a80100, 24},
	{0x7f000000, 8}, {0xe0000000, 3}, {0x0a000000, 7}, {0x0b000000, 8}, {0x09ffff00, 24}, {0x0a000000, 9}, {0x0a800000, 9},
}

func genPrefix(s *sys) *rapid.Generator[[2]uint32] {
	return rapid.Custom(func(t *rapid.T) [2]uint32 {
		switch rapid.IntRange(0, 9).Draw(t, "src") {
		case 0, 1, 2:
			p := rapid.SampledFrom(poolPrefixes).Draw(t, "pool")
			host := rapid.Uint32().Draw(t, "hostbits") & ^mask(p.ones)
			if rapid.Bool().Draw(t, "canonical") {
				host = 0
			}
			return [2]uint32{p.net | host, uint32(p.ones)}
		case 3, 4, 5:
			if len(s.mentioned) > 0 {
				p := rapid.SampledFrom(s.mentioned).Draw(t, "mentioned")
				return [2]uint32{p.net | (rapid.Uint32().Draw(t, "hostbits") & ^mask(p.ones)), uint32(p.ones)}
			}
			fallthrough
		default:
			return [2]uint32{rapid.Uint32().Draw(t, "raw"), uint32(rapid.IntRange(0, 32).Draw(t, "ones"))}
		}
	})
}

func TestStateMachine(t *testing.T) {
	rt.Check(t, 1500, 250000, func(t *rapid.T) {
		s := newSys()
		var other *sys
		usedOther := false
		fail := func(msg string) {
			if msg != "" {
				t.Fatalf("%s\nhistory: %s", msg, s.render())
			}
		}
		afterStep := func(touched ...prefix) {
			for _, p := range touched {
				fail(s.probePrefix(p))
			}
			if n := len(s.mentioned); n > 0 {
				k := rapid.IntRange(0, 12).Draw(t, "nsample")
				for i := 0; i < k; i++ {
					fail(s.probePrefix(s.mentioned[rapid.IntRange(0, n-1).Draw(t, "sample")]))
				}
			}
			fail(s.probeOne(rapid.Uint32().Draw(t, "randaddr")))
		}
		// a third of the histories start close to the list->map switch, with holes punched into the list
		if rapid.IntRange(0, 2).Draw(t, "preload") == 0 {
			n := rapid.IntRange(230, 262).Draw(t, "npre")
			base := rapid.Uint32().Draw(t, "prebase") & 0xffff0000
			holes := rapid.IntRange(0, 6).Draw(t, "holes")
			for i := 0; i < n; i++ {
				ones := 17 + i%16
				fail(s.add(base|uint32(i)<<(32-ones)|uint32(i), ones))
				if holes > 0 && i%37 == 5 {
					holes--
					j := rapid.IntRange(0, len(s.mentioned)-1).Draw(t, "hole")
					p := s.mentioned[j]
					fail(s.remove(p.net, p.ones))
				}
			}
			fail(s.probeAll())
		}
		t.Repeat(map[string]func(*rapid.T){
			"add": func(t *rapid.T) {
				p := genPrefix(s).Draw(t, "p")
				fail(s.add(p[0], int(p[1])))
				afterStep(prefix{p[0] & mask(int(p[1])), int(p[1])})
			},
			"remove": func(t *rapid.T) {
				p := genPrefix(s).Draw(t, "p")
				fail(s.remove(p[0], int(p[1])))
				afterStep(prefix{p[0] & mask(int(p[1])), int(p[1])})
			},
			"removePresent": func(t *rapid.T) {
				var present []prefix
				for _, p := range s.mentioned {
					if s.m.set[p] {
						present = append(present, p)
					}
				}
				if len(present) == 0 {
					t.Skip("nothing present")
				}
				p := rapid.SampledFrom(present).Draw(t, "p")
				fail(s.remove(p.net|(rapid.Uint32().Draw(t, "hostbits") & ^mask(p.ones)), p.ones))
				afterStep(p)
			},
			"addMany": func(t *rapid.T) {
				remaining := 256 - s.validAdds
				var n int
				switch rapid.IntRange(0, 3).Draw(t, "how") {
				case 0:
					n = rapid.IntRange(1, 10).Draw(t, "n")
				case 1:
					if remaining > 0 {
						n = remaining + rapid.IntRange(-1, 2).Draw(t, "delta")
					} else {
						n = rapid.IntRange(1, 40).Draw(t, "n")
					}
				default:
					n = rapid.IntRange(20, 120).Draw(t, "n")
				}
				if n < 1 {
					n = 1
				}
				base := rapid.Uint32().Draw(t, "base")
				ones := rapid.IntRange(1, 32).Draw(t, "ones")
				dupEvery := rapid.IntRange(0, 5).Draw(t, "dupEvery")
				var touched []prefix
				for i := 0; i < n; i++ {
					raw := base + uint32(i)<<(32-ones)
					if dupEvery > 0 && i%(dupEvery+1) == dupEvery {
						raw = base // duplicate
					}
					fail(s.add(raw, ones))
					if i < 3 || i == n-1 {
						touched = append(touched, prefix{raw & mask(ones), ones})
					}
				}
				afterStep(touched...)
			},
			"removeMany": func(t *rapid.T) {
				// the mirror image of addMany: long runs of removals, of present ranges, of ranges already removed and of
				// ranges that never were there - often more removals than there are ranges
				if len(s.mentioned) == 0 {
					t.Skip("nothing mentioned yet")
				}
				n := rapid.SampledFrom([]int{3, 10, 40, 120, 300}).Draw(t, "n")
				again := rapid.IntRange(0, 3).Draw(t, "repeatEvery")
				start := rapid.IntRange(0, len(s.mentioned)-1).Draw(t, "start")
				keep := rapid.IntRange(0, 3).Draw(t, "keepEvery") // spare every k-th range so that something stays in the filter
				var touched []prefix
				for i := 0; i < n; i++ {
					p := s.mentioned[(start+i)%len(s.mentioned)]
					if keep > 0 && (start+i)%(keep+3) == 0 {
						continue
					}
					fail(s.remove(p.net|(uint32(i)&^mask(p.ones)), p.ones))
					if again > 0 && i%(again+1) == 0 {
						fail(s.remove(p.net, p.ones)) // a second time: it is absent now
					}
					if i < 3 || i == n-1 {
						touched = append(touched, p)
					}
				}
				fail(s.remove(rapid.Uint32().Draw(t, "neverThere"), rapid.IntRange(1, 32).Draw(t, "ones")))
				afterStep(touched...)
				fail(s.probeAll())
			},
			"sixteenByteSpelling": func(t *rapid.T) {
				// a range that is present (to be removed) or any range (to be added), spelled with a 16-byte IP
				remove := rapid.Bool().Draw(t, "remove")
				p := genPrefix(s).Draw(t, "p")
				if remove && len(s.mentioned) > 0 && rapid.Bool().Draw(t, "ofMentioned") {
					q := s.mentioned[rapid.IntRange(0, len(s.mentioned)-1).Draw(t, "which")]
					p = [2]uint32{q.net, uint32(q.ones)}
				}
				fail(s.mixed(p[0], int(p[1]), remove))
				afterStep(prefix{p[0] & mask(int(p[1])), int(p[1])})
				fail(s.probeAll())
			},
			"otherFilter": func(t *rapid.T) {
				// a second, independent filter in the same process (with a model of its own): what is done to one of
				// them never shows in the other - no state is shared between IPv4Filter values
				if other == nil {
					other = newSys()
				}
				n := rapid.SampledFrom([]int{1, 3, 40, 300}).Draw(t, "n")
				base := rapid.Uint32().Draw(t, "base")
				ones := rapid.IntRange(0, 32).Draw(t, "ones")
				rm := rapid.IntRange(0, 3).Draw(t, "remove") == 0
				var last prefix
				for i := 0; i < n; i++ {
					raw := base
					if ones > 0 {
						raw = base + uint32(i)<<(32-ones)
					}
					var msg string
					if rm {
						msg = other.remove(raw, ones)
					} else {
						msg = other.add(raw, ones)
					}
					if msg != "" {
						t.Fatalf("second filter: %s\nits history: %s\nhistory of the first: %s", msg, other.render(), s.render())
					}
					last = prefix{raw & mask(ones), ones}
				}
				if msg := other.probePrefix(last); msg != "" {
					t.Fatalf("second filter: %s\nits history: %s\nhistory of the first: %s", msg, other.render(), s.render())
				}
				usedOther = true
				afterStep()
			},
			"invalid": func(t *rapid.T) {
				fail(s.invalid(rapid.IntRange(0, 50).Draw(t, "which"), rapid.Bool().Draw(t, "remove")))
				fail(s.probeAll()) // nothing changed
			},
			"probeAll": func(t *rapid.T) {
				fail(s.probeAll())
			},
		})
		fail(s.probeAll())
		if usedOther {
			if msg := other.probeAll(); msg != "" {
				t.Fatalf("second filter: %s\nits history: %s\nhistory of the first: %s", msg, other.render(), s.render())
			}
			ev.Label("history:a_second_filter_was_used_alongside")
		}
		if s.crossed {
			ev.Label("history:crossed_256")
		}
		if s.crossed && s.removedBeforeCross {
			ev.Label("history:crossed_with_removed_slot")
		}
		if s.m.matchAll {
			ev.Label("history:ends_with_match_all")
		}
		ev.Case(s.nontrivial(), ev.Hash(s.hist...), s.render)
	})
}

func TestRegression(t *testing.T) {
	// 16-byte form of an IPv4 address (what net.ParseIP returns)
	{
		s := newSys()
		if msg := s.add(0x0a000000, 8); msg != "" {
			t.Fatal(msg)
		}
		if !s.f.Contains(net.ParseIP("10.1.2.3")) {
			t.Errorf("Contains(net.ParseIP(\"10.1.2.3\")) = false with 10.0.0.0/8 present (16-byte form of an IPv4 address)")
		}
		if msg := s.probeAll(); msg != "" {
			t.Error(msg)
		}
		ev.Case(false, 1, nil)
	}
	// crossing the switch with holes, duplicates and a remove afterwards
	{
		s := newSys()
		for i := 0; i < 300; i++ {
			if msg := s.add(0x64000000|uint32(i)<<8, 24); msg != "" {
				t.Fatal(msg)
			}
			if i == 10 || i == 200 {
				s.add(0x64000000|uint32(i)<<8, 24)           // duplicate
				s.remove(0x64000000|uint32(i-3)<<8|0x7f, 24) // non-canonical remove
			}
			if i == 255 || i == 256 || i == 257 {
				if msg := s.probeAll(); msg != "" {
					t.Fatalf("at add #%d: %s", i, msg)
				}
			}
		}
		s.remove(0x64000000|uint32(10)<<8, 24)
		s.remove(0x64000000|uint32(280)<<8, 24)
		s.add(0, 0)
		if msg := s.probeAll(); msg != "" {
			t.Error(msg)
		}
		s.remove(0x12345678, 0)
		if msg := s.probeAll(); msg != "" {
			t.Error(msg)
		}
		for i := range invalidArgs() {
			if msg := s.invalid(i, false); msg != "" {
				t.Error(msg)
			}
			if msg := s.invalid(i, true); msg != "" {
				t.Error(msg)
			}
		}
		if msg := s.probeAll(); msg != "" {
			t.Error(msg)
		}
		ev.Case(s.nontrivial(), ev.Hash(s.hist...), s.render)
	}
}

// FuzzHistory decodes bytes into operations: 6 bytes per op (opcode, prefix length, 4 address bytes).
func FuzzHistory(f *testing.F) {
	var seed []byte
	for i := 0; i < 300; i++ {
		seed = append(seed, 0, byte(17+i%16), 100, byte(i>>8), byte(i), 0)
		if i%50 == 7 {
			seed = append(seed, 1, byte(17+(i-2)%16), 100, byte((i-2)>>8), byte(i-2), 0)
		}
	}
	f.Add(seed)
	f.Add([]byte{0, 8, 10, 0, 0, 0, 1, 8, 10, 0, 0, 0})
	f.Add([]byte{0, 0, 0, 0, 0, 0, 1, 0, 9, 9, 9, 9, 0, 32, 255, 255, 255, 255})
	f.Fuzz(func(t *testing.T, data []byte) {
		if len(data) > 6*400 {
			data = data[:6*400]
		}
		s := newSys()
		for i := 0; i+6 <= len(data); i += 6 {
			opc, ones := data[i]%8, int(data[i+1]%33)
			raw := binary.BigEndian.Uint32(data[i+2 : i+6])
			var msg string
			switch opc {
			case 0, 1, 2, 3:
				msg = s.add(raw, ones)
			case 4, 5:
				msg = s.remove(raw, ones)
			case 6:
				msg = s.invalid(int(raw), ones%2 == 0)
			case 7:
				msg = s.probeOne(raw)
			}
			if msg == "" {
				msg = s.probePrefix(prefix{raw & mask(ones), ones})
			}
			if msg != "" {
				t.Fatalf("%s\nhistory: %s", msg, s.render())
			}
		}
		if msg := s.probeAll(); msg != "" {
			t.Fatalf("%s\nhistory: %s", msg, s.render())
		}
	})
}

// TestManyRangesOfOneLength: "operation sequences of any length" - a block list of single hosts, or of /24s, easily has
// more entries of one prefix length than fit into a small counter. One filter takes 2^16 + 1 (now and then 2^17 + 1)
// distinct ranges of one length (16..32), spread over the address space by an odd stride; at 255, 256, 257, 65535,
// 65536, 65537 (131071, 131072, 131073) live ranges, and again on the way down while ranges are removed, the first,
// the last and some ranges in between must be inside (probed at an address with arbitrary host bits) and ranges that
// were never added, or were removed, outside. A few ranges of other lengths ride along and must not be disturbed
// (round twenty-two, C11-agent22: a 16-bit count of keys per prefix length that wraps to "none").
func TestManyRangesOfOneLength(t *testing.T) {
	rt.Check(t, 3, 160, func(t *rapid.T) {
		ones := rapid.IntRange(16, 32).Draw(t, "prefixLength")
		space := uint64(1) << uint(ones)
		start := rapid.Uint32().Draw(t, "start")
		stride := rapid.Uint32().Draw(t, "stride") | 1
		host := rapid.Uint32().Draw(t, "hostBits")
		top := 1<<16 + 1
		if ones >= 18 && rapid.IntRange(0, 3).Draw(t, "twice") == 0 {
			top = 1<<17 + 1
		}
		nth := func(i int) uint32 { // the i-th range: distinct for i < 2^ones (odd stride)
			return uint32((uint64(start)+uint64(i)*uint64(stride))%space) << uint(32-ones)
		}
		f := netutil.NewIPv4Filter()
		// riders of other lengths, inside 10.0.0.0/8 only if the crowd leaves them alone: judged by the model below
		type rider struct {
			p    prefix
			live bool
		}
		var riders []rider
		for k := 0; k < 4; k++ {
			o := rapid.IntRange(1, 32).Draw(t, "riderLength")
			if o == ones {
				continue
			}
			r := rapid.Uint32().Draw(t, "rider") & mask(o)
			if err := f.Add(ipnet(r, o)); err != nil {
				t.Fatalf("Add(%v) = %v", prefix{r, o}, err)
			}
			riders = append(riders, rider{prefix{r, o}, true})
		}
		live := 0 // ranges 0..live-1 of the crowd are present
		// inside: covered by one of the riders
		inside := func(v uint32) bool {
			for _, r := range riders {
				if r.live && v&mask(r.p.ones) == r.p.net {
					return true
				}
			}
			return false // the crowd itself is judged by index (only addresses whose range number is known are probed)
		}
		probe := func(i int, where string) {
			v := nth(i) | host&^mask(ones)
			want := i < live || inside(v)
			for _, ip := range []net.IP{ip4(v), ip4(v).To16()} {
				if got := f.Contains(ip); got != want {
					t.Fatalf("/%d crowd (start %08x, stride %08x) with %d live ranges, %s: Contains(%v as %d bytes) = %v, want %v (range #%d = %v, %s)", ones, start, stride, live, where, ip4(v), len(ip), got, want, i, prefix{nth(i), ones},
						map[bool]string{true: "added and not removed", false: "never added, or removed"}[i < live])
				}
			}
		}
		checkpoint := func(where string) {
			for _, i := range []int{0, 1, live / 2, live - 2, live - 1} {
				if i >= 0 && i < live {
					probe(i, where)
				}
			}
			for k := 0; k < 8; k++ {
				probe(rapid.IntRange(0, live-1).Draw(t, "someRange"), where)
			}
			// ranges beyond the live ones: never added or removed again (skip what the odd stride folds back onto live ones)
			for _, i := range []int{live, live + 1, live + 7} {
				if uint64(i) < space {
					probe(i, where)
				}
			}
			for _, r := range riders {
				if got := f.Contains(ip4(r.p.net | host&^mask(r.p.ones))); got != true {
					t.Fatalf("/%d crowd with %d live ranges, %s: the range %v that rides along is no longer inside", ones, live, where, r.p)
				}
			}
		}
		marks := map[int]bool{255: true, 256: true, 257: true, 65535: true, 65536: true, 65537: true, 131071: true, 131072: true, 131073: true}
		if uint64(top) > space {
			top = int(space)
		}
		for live < top {
			if err := f.Add(ipnet(nth(live)|host&^mask(ones), ones)); err != nil {
				t.Fatalf("Add(%v) = %v", prefix{nth(live), ones}, err)
			}
			live++
			if marks[live] || live == top {
				checkpoint("on the way up")
			}
		}
		// and down again: the ranges added last are removed first
		down := rapid.SampledFrom([]int{3, 300, 70000}).Draw(t, "removals")
		for k := 0; k < down && live > 1; k++ {
			if err := f.Remove(ipnet(nth(live-1), ones)); err != nil {
				t.Fatalf("Remove(%v) = %v", prefix{nth(live - 1), ones}, err)
			}
			live--
			if marks[live] || k == down-1 {
				checkpoint("on the way down")
			}
		}
		ev.Label(fmt.Sprintf("crowd_of_/%d", ones))
		ev.LabelN("crowd:ranges_added", int64(top))
		ev.Case(true, ev.Hash("crowd", fmt.Sprint(ones, start, stride, top, down)), func() string {
			return fmt.Sprintf("/%d x %d ranges (start %08x, stride %08x), then %d removals", ones, top, start, stride, down)
		})
	})
}
