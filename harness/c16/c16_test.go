// C16 — ShellEscape yields exactly one shell word that evaluates back to the input.
package c16

import (
	"bytes"
	"fmt"
	"os"
	"os/exec"
	"strings"
	"sync"
	"testing"

	"github.com/whoisnian/glb/util/strutil"
	"pgregory.net/rapid"

	"verif/harness/internal/ev"
	"verif/harness/internal/rt"
)

func TestMain(m *testing.M) {
	ev.Rule("cases = input strings without NUL: exhaustive strings over 15 shell symbols (' \" \\ $ ` space newline ; & | * ~ ! # a), plus rapid-generated arbitrary non-NUL byte strings; " +
		"each is escaped by ShellEscape and ShellEscapeExceptTilde and judged by a POSIX word-reader model and (batched) by the real dash and bash; " +
		"non-trivial = the string contains at least one shell-special character; distinct by (function, string)")
	rt.Main(m)
}

const home = "/h0me"

var symbols = []byte{'\'', '"', '\\', '$', '`', ' ', '\n', ';', '&', '|', '*', '~', '!', '#', 'a'}

func special(s string) bool {
	return strings.ContainsAny(s, "'\"\\$` \t\n;&|*~!#<>()[]{}?") || s == ""
}

// ---- model: an independent reader of POSIX shell quoting --------------------------------

const bareSafe = "abcdefghijklmnopqrstuvwxyzABCDEFGHIJKLMNOPQRSTUVWXYZ0123456789_./-+,:@%^="

// readWord consumes frag as the argument position of a simple command. It returns the value of the
// single word frag denotes, whether the word began with an unquoted tilde-prefix "~/" (left for the
// shell to expand), or an error describing why frag is not exactly one literal word.
func readWord(frag string) (value string, tilde bool, err error) {
	var out []byte
	i := 0
	if strings.HasPrefix(frag, "~/") {
		tilde = true
		out = append(out, '/')
		i = 2
	}
	for i < len(frag) {
		c := frag[i]
		switch {
		case c == '\'':
			j := strings.IndexByte(frag[i+1:], '\'')
			if j < 0 {
				return "", tilde, fmt.Errorf("unterminated single quote at %d", i)
			}
			out = append(out, frag[i+1:i+1+j]...)
			i += j + 2
		case c == '"':
			i++
			closed := false
			for i < len(frag) {
				d := frag[i]
				if d == '"' {
					closed = true
					i++
					break
				}
				if d == '$' || d == '`' {
					return "", tilde, fmt.Errorf("expansion character %q inside double quotes at %d", d, i)
				}
				if d == '\\' && i+1 < len(frag) {
					e := frag[i+1]
					switch e {
					case '$', '`', '"', '\\':
						out = append(out, e)
						i += 2
						continue
					case '\n':
						i += 2
						continue
					}
				}
				out = append(out, d)
				i++
			}
			if !closed {
				return "", tilde, fmt.Errorf("unterminated double quote")
			}
		case c == '\\':
			if i+1 >= len(frag) {
				return "", tilde, fmt.Errorf("trailing unquoted backslash")
			}
			if frag[i+1] != '\n' {
				out = append(out, frag[i+1])
			}
			i += 2
		case c == '~' && i > 0 && !(tilde && i == 2):
			// a tilde that is not at the start of the word is literal
			out = append(out, c)
			i++
		case strings.IndexByte(bareSafe, c) >= 0:
			out = append(out, c)
			i++
		default:
			return "", tilde, fmt.Errorf("unquoted special byte %q at offset %d", c, i)
		}
	}
	if len(frag) == 0 {
		return "", tilde, fmt.Errorf("empty fragment denotes no word")
	}
	return string(out), tilde, nil
}

// modelCheck returns "" when the escaped text is exactly one word with the required value.
func modelCheck(fn string, s string) string {
	var esc string
	if fn == "ShellEscape" {
		esc = strutil.ShellEscape(s)
	} else {
		esc = strutil.ShellEscapeExceptTilde(s)
	}
	val, tilde, err := readWord(esc)
	if err != nil {
		return fmt.Sprintf("%s(%q) = %q: %v", fn, s, esc, err)
	}
	wantTilde := fn == "ShellEscapeExceptTilde" && strings.HasPrefix(s, "~/")
	if tilde != wantTilde {
		return fmt.Sprintf("%s(%q) = %q: unquoted leading ~/ present=%v, want %v", fn, s, esc, tilde, wantTilde)
	}
	want := s
	if wantTilde {
		want = s[1:] // value after the shell replaced "~" by $HOME: HOME + want
	}
	if val != want {
		return fmt.Sprintf("%s(%q) = %q: word value %q, want %q", fn, s, esc, val, want)
	}
	return ""
}

// ---- real shells ---------------------------------------------------------------------------

type item struct {
	fn string
	s  string
}

func (it item) escaped() string {
	if it.fn == "ShellEscape" {
		return strutil.ShellEscape(it.s)
	}
	return strutil.ShellEscapeExceptTilde(it.s)
}

func (it item) want() string {
	if it.fn == "ShellEscapeExceptTilde" && strings.HasPrefix(it.s, "~/") {
		return home + it.s[1:]
	}
	return it.s
}

var shells = func() []string {
	var out []string
	for _, p := range []string{"/usr/bin/dash", "/usr/bin/bash", "/bin/dash", "/bin/bash"} {
		if _, err := os.Stat(p); err == nil {
			dup := false
			for _, o := range out {
				if o[strings.LastIndexByte(o, '/'):] == p[strings.LastIndexByte(p, '/'):] {
					dup = true
				}
			}
			if !dup {
				out = append(out, p)
			}
		}
	}
	return out
}()

// runBatch feeds one "p <escaped>" line per item to the shell and reports whether every line
// produced exactly one argument equal to the expected value.
func runBatch(t testing.TB, shell string, dir string, items []item) (ok bool, detail string) {
	// all escapes first, use afterwards: the way a caller composes a command line out of several arguments
	escs := make([]string, len(items))
	for i, it := range items {
		escs[i] = it.escaped()
	}
	var sb bytes.Buffer
	sb.WriteString("p() { printf '%s\\0' \"$#\" \"$@\"; }\n")
	for i := range items {
		sb.WriteString("p ")
		sb.WriteString(escs[i])
		sb.WriteString("\n")
	}
	script := dir + "/batch.sh"
	if err := os.WriteFile(script, sb.Bytes(), 0o600); err != nil {
		rt.Inconclusivef(t, "write script: %v", err)
	}
	cmd := exec.Command(shell, script)
	cmd.Dir = dir + "/cwd"
	cmd.Env = []string{"PATH=/nonexistent", "HOME=" + home, "LC_ALL=C", "ENV=", "BASH_ENV="}
	var stdout, stderr bytes.Buffer
	cmd.Stdout, cmd.Stderr = &stdout, &stderr
	runErr := cmd.Run()
	var want bytes.Buffer
	for _, it := range items {
		want.WriteString("1\x00")
		want.WriteString(it.want())
		want.WriteByte(0)
	}
	if bytes.Equal(stdout.Bytes(), want.Bytes()) && runErr == nil {
		return true, ""
	}
	got := stdout.Bytes()
	if len(got) > 300 {
		got = got[:300]
	}
	return false, fmt.Sprintf("exit=%v stderr=%q stdout(prefix)=%q", runErr, firstN(stderr.String(), 200), got)
}

func firstN(s string, n int) string {
	if len(s) > n {
		return s[:n]
	}
	return s
}

// verifyShell checks a batch and bisects a mismatch down to a single offending input.
func verifyShell(t testing.TB, shell, dir string, items []item) string {
	ok, detail := runBatch(t, shell, dir, items)
	if ok {
		return ""
	}
	if len(items) == 1 {
		return fmt.Sprintf("%s disagrees: %s(%q) = %q is not one word with value %q: %s", shell, items[0].fn, items[0].s, items[0].escaped(), items[0].want(), detail)
	}
	mid := len(items) / 2
	if msg := verifyShell(t, shell, dir, items[:mid]); msg != "" {
		return msg
	}
	if msg := verifyShell(t, shell, dir, items[mid:]); msg != "" {
		return msg
	}
	return fmt.Sprintf("%s disagrees on a batch of %d lines although each half passes alone: %s", shell, len(items), detail)
}

func shellDir(t testing.TB) string {
	dir := t.TempDir()
	if err := os.Mkdir(dir+"/cwd", 0o700); err != nil {
		rt.Inconclusivef(t, "mkdir: %v", err)
	}
	return dir
}

func checkShells(t testing.TB, dir string, items []item) string {
	if len(shells) == 0 {
		ev.Assume("no dash/bash binary found: real-shell oracle skipped, the POSIX word-reader model alone decides")
		return ""
	}
	for _, sh := range shells {
		if msg := verifyShell(t, sh, dir, items); msg != "" {
			return msg
		}
		ev.LabelN("shell_words:"+sh, int64(len(items)))
	}
	return ""
}

// ---- tests ------------------------------------------------------------------------------------

var fns = []string{"ShellEscape", "ShellEscapeExceptTilde"}

func TestRegression(t *testing.T) {
	inputs := []string{"", "a", "'", "''", "'\"'\"'", "\\'", "a'b", "$HOME", "`id`", "$(id)", "a b", "a\nb", ";", "&", "|", "*", "~", "~/", "~/a'b", "~/ $x", "~a/b", "!", "#",
		"~/~/", "\\", "\\\\'", "'\\''", "\x01\x7f\xff", "-n", "a=b", "~/'", "~//'x", " ~/x", "é'é", "'$(touch x)'", "\"; touch x; \""}
	dir := shellDir(t)
	var items []item
	for _, fn := range fns {
		for _, s := range inputs {
			if msg := modelCheck(fn, s); msg != "" {
				t.Error(msg)
			}
			items = append(items, item{fn, s})
			s := s
			ev.Case(special(s), ev.Hash(fn, s), func() string { return fmt.Sprintf("%s(%q) = %q", fn, s, item{fn, s}.escaped()) })
		}
	}
	if msg := checkShells(t, dir, items); msg != "" {
		t.Error(msg)
	}
}

// TestExhaustive enumerates every string up to length L over the 15 symbols, for both functions
// (ExceptTilde additionally with a "~/" prefix); the model judges all of them, the real shells judge
// those up to length Lshell.
func TestExhaustive(t *testing.T) {
	L, Lshell := 5, 4
	if rt.Thorough() {
		L, Lshell = 5, 5
	}
	si, sn := rt.Shard()
	dir := shellDir(t)
	var batch []item
	var total, idx int64
	nfail := 0
	flush := func() {
		if len(batch) == 0 {
			return
		}
		if msg := checkShells(t, dir, batch); msg != "" {
			nfail++
			if nfail <= 3 {
				t.Error(msg)
			}
		}
		batch = batch[:0]
	}
	buf := make([]byte, 0, L)
	var rec func()
	rec = func() {
		idx++
		if int(idx%int64(sn)) == si && nfail < 3 {
			s := string(buf)
			cases := []item{{"ShellEscape", s}, {"ShellEscapeExceptTilde", s}, {"ShellEscapeExceptTilde", "~/" + s}}
			for _, it := range cases {
				if msg := modelCheck(it.fn, it.s); msg != "" {
					nfail++
					if nfail <= 3 {
						t.Error(msg)
					}
				}
				total++
				it := it
				ev.Case(special(it.s), ev.Hash(it.fn, it.s), func() string { return fmt.Sprintf("%s(%q) = %q", it.fn, it.s, it.escaped()) })
				if len(buf) <= Lshell {
					batch = append(batch, it)
				}
			}
			if len(batch) >= 30000 {
				flush()
			}
		}
		if len(buf) == L {
			return
		}
		for _, c := range symbols {
			buf = append(buf, c)
			rec()
			buf = buf[:len(buf)-1]
		}
	}
	rec()
	flush()
	scope := fmt.Sprintf("all strings of length <= %d over the 15 shell symbols (%d strings) x {ShellEscape, ShellEscapeExceptTilde, ShellEscapeExceptTilde with ~/ prefix} judged by the model; those of length <= %d also by %v", L, idx, Lshell, shells)
	if sn > 1 {
		scope = fmt.Sprintf("shard %d/%d of: ", si, sn) + scope
	}
	ev.Exhaustive(scope)
	ev.LabelN("exhaustive_cases", total)
}

func genString() *rapid.Generator[string] {
	arbitrary := rapid.Custom(func(t *rapid.T) string {
		return string(rapid.SliceOfN(rapid.ByteRange(1, 255), 0, 200).Draw(t, "bytes"))
	})
	symbolic := rapid.Custom(func(t *rapid.T) string {
		return string(rapid.SliceOfN(rapid.SampledFrom(symbols), 0, 30).Draw(t, "syms"))
	})
	hostile := rapid.Custom(func(t *rapid.T) string {
		parts := rapid.SliceOfN(rapid.SampledFrom([]string{"'", "''", "'\"'\"'", "\"", "\\", "\\'", "$(id)", "`id`", "${x}", " ", "\t", "\n", ";", "&&", "|", ">", "<", "*", "?", "[a]", "~", "~/", "!", "#", "a", "é", "\xff", "\x01", "\x7f", "--", "=", "(", ")", "{", "}", "\r",
			// characters an implementation may think nobody uses, and use itself as a marker between two passes over the string
			"\uffff", "\ufffe", "\ufffd", "\ufdd0", "\ue000", "\U0010ffff", "\x1a", "\x1b", "\x1e", "\x02", "\xef\xbf", "\u2028", "\u00a0", "\u200b"}), 0, 12).Draw(t, "parts")
		return strings.Join(parts, "")
	})
	long := rapid.Custom(func(t *rapid.T) string {
		n := rapid.SampledFrom([]int{255, 256, 257, 1023, 1025, 4096, 4096, 4096, 4096, 4096, 4096, 4096, 4096, 4096, 4096, 4096, 4096, 4096, 4096, 4096, 70000}).Draw(t, "len")
		if n == 4096 {
			n = rapid.IntRange(200, 600).Draw(t, "midlen")
		}
		unit := rapid.SampledFrom([]string{"a", "'", "a'", "\\", "$x ", "\xff", "ab\n"}).Draw(t, "unit")
		return strings.Repeat(unit, n/len(unit)+1)[:n] + rapid.SampledFrom([]string{"", "'", "\"", "$(id)"}).Draw(t, "tail")
	})
	base := rapid.OneOf(arbitrary, symbolic, hostile, hostile, arbitrary, symbolic, hostile, hostile, arbitrary, symbolic, hostile, hostile, arbitrary, symbolic, hostile, long)
	return rapid.Custom(func(t *rapid.T) string {
		s := base.Draw(t, "s")
		switch rapid.IntRange(0, 5).Draw(t, "prefix") {
		case 0:
			return "~/" + s
		case 1:
			return "~" + s
		}
		return s
	})
}

func TestGenerated(t *testing.T) {
	var dir string
	var batch []item
	n := 0
	defer func() { // also when rapid.Check ends the test through Fatalf
		if dir != "" {
			os.RemoveAll(dir)
		}
	}()
	rt.Check(t, 20000, 5000000, func(t *rapid.T) {
		// the escaped word is a function of the string alone: not of the caller's login shell, locale or home
		if rapid.IntRange(0, 3).Draw(t, "changeEnvironment") == 0 {
			k := rapid.SampledFrom([]string{"SHELL", "SHELL", "LANG", "LC_ALL", "HOME", "IFS", "TERM"}).Draw(t, "envName")
			v := rapid.SampledFrom([]string{"/usr/bin/fish", "/bin/zsh", "/bin/csh", "/bin/sh", "", "C:\\Windows\\cmd.exe", "tr_TR.UTF-8", "C", "/nonexistent", "xterm"}).Draw(t, "envValue")
			old, had := os.LookupEnv(k)
			os.Setenv(k, v)
			defer func() {
				if had {
					os.Setenv(k, old)
				} else {
					os.Unsetenv(k)
				}
			}()
			ev.Label("env:" + k + "_changed")
		}
		s := genString().Draw(t, "s")
		for _, fn := range fns {
			if msg := modelCheck(fn, s); msg != "" {
				t.Fatalf("%s", msg)
			}
		}
		// the returned string must stay what it is: escape a second string and look at the first result again
		s2 := genString().Draw(t, "s2")
		for _, fn := range fns {
			r1 := item{fn, s}.escaped()
			keep := strings.Clone(r1)
			r2 := item{fn, s2}.escaped()
			if r1 != keep {
				t.Fatalf("%s(%q) returned %q, but after a later call %s(%q) that same string reads %q", fn, s, keep, fn, s2, r1)
			}
			if msg := modelCheck(fn, s2); msg != "" {
				t.Fatalf("%s", msg)
			}
			_ = r2
		}
		// real shells: small batches so that a failing case shrinks through the same path
		n++
		if dir == "" {
			dir = shellDirRapid()
		}
		batch = append(batch, item{"ShellEscape", s}, item{"ShellEscapeExceptTilde", s})
		if len(batch) >= 4000 {
			b := batch
			batch = nil
			if msg := checkShellsRapid(t, dir, b); msg != "" {
				t.Fatalf("%s", msg)
			}
		}
		if strings.HasPrefix(s, "~/") {
			ev.Label("gen:tilde_slash_prefix")
		}
		if strings.Contains(s, "'") {
			ev.Label("gen:has_single_quote")
		}
		for _, fn := range fns {
			fn := fn
			ev.Case(special(s), ev.Hash(fn, s), func() string { return fmt.Sprintf("%s(%q) = %q", fn, s, item{fn, s}.escaped()) })
		}
	})
	if len(batch) > 0 && dir != "" && !t.Failed() {
		if msg := checkShells(t, dir, batch); msg != "" {
			t.Errorf("violation: %s", msg)
		}
	}
	if dir != "" {
		os.RemoveAll(dir)
	}
}

func shellDirRapid() string {
	dir, err := os.MkdirTemp("", "c16-")
	if err != nil {
		panic(err)
	}
	if err := os.Mkdir(dir+"/cwd", 0o700); err != nil {
		panic(err)
	}
	return dir
}

type fatalf interface {
	Fatalf(format string, args ...any)
}

type tbShim struct {
	testing.TB
	f fatalf
}

func (s tbShim) Fatalf(format string, args ...any) { s.f.Fatalf(format, args...) }

func checkShellsRapid(t *rapid.T, dir string, items []item) string {
	return checkShells(tbShim{f: t}, dir, items)
}

func FuzzEscape(f *testing.F) {
	for _, s := range []string{"", "'", "~/'", "a b", "$x", "'\"'\"'", "\\'"} {
		f.Add(s)
	}
	f.Fuzz(func(t *testing.T, s string) {
		if strings.IndexByte(s, 0) >= 0 {
			return
		}
		for _, fn := range fns {
			if msg := modelCheck(fn, s); msg != "" {
				t.Fatal(msg)
			}
		}
	})
}

// TestConcurrentCallers: the functions are plain string functions and may be called from any number of goroutines;
// every caller must get the word for its own input (run under the race detector).
func TestConcurrentCallers(t *testing.T) {
	rt.Check(t, 60, 3000, func(t *rapid.T) {
		g := rapid.IntRange(2, 8).Draw(t, "goroutines")
		inputs := make([][]string, g)
		for i := range inputs {
			n := rapid.IntRange(5, 40).Draw(t, "n")
			for k := 0; k < n; k++ {
				inputs[i] = append(inputs[i], genString().Draw(t, "s"))
			}
		}
		msgs := make([]string, g)
		var wg sync.WaitGroup
		for i := range inputs {
			wg.Add(1)
			go func(i int) {
				defer wg.Done()
				var kept []string
				for _, s := range inputs[i] {
					for _, fn := range fns {
						if m := modelCheck(fn, s); m != "" && msgs[i] == "" {
							msgs[i] = m
						}
					}
					kept = append(kept, item{"ShellEscape", s}.escaped())
				}
				for k, s := range inputs[i] {
					if want := (item{"ShellEscape", s}).escaped(); kept[k] != want && msgs[i] == "" {
						msgs[i] = fmt.Sprintf("ShellEscape(%q) returned %q earlier, now that same string reads %q (want %q)", s, "?", kept[k], want)
					}
				}
			}(i)
		}
		wg.Wait()
		for _, m := range msgs {
			if m != "" {
				t.Fatalf("concurrent callers: %s", m)
			}
		}
		ev.Label("concurrent_callers")
		ev.Case(true, ev.Hash("conc", fmt.Sprint(inputs)), func() string {
			return fmt.Sprintf("%d goroutines escaping %d strings each concurrently", g, len(inputs[0]))
		})
	})
}
