// C04 — Router dispatches every request to exactly one handler by documented precedence.
package c04

import (
	"fmt"
	"net/http"
	"strings"
	"testing"

	"pgregory.net/rapid"

	"verif/harness/internal/ev"
	rh "verif/harness/internal/routeharness"
	rm "verif/harness/internal/routemodel"
	"verif/harness/internal/rt"
)

func TestMain(m *testing.M) {
	ev.Rule("cases = (route table, method, path) triples: rapid-generated tables of 1..8 routes over literals/:params/* with repeated and trailing slashes and any method, requests with arbitrary path strings; " +
		"plus the exhaustive scope of all tables of <= 3 (quick: 2) routes over pattern elements {a,b,:x,*} (<= 2 elements, methods GET and *) x all paths of <= 4 segments over {a,b,c,''} plus '' and '*' x {GET,POST}; " +
		"the real Mux must invoke exactly one handler, and for paths starting with '/' the handler and every binding must equal the candidate-set reference router; " +
		"non-trivial = the lookup exercised a precedence decision (literal vs :param vs *, exact vs * method, empty-segment rule, root special case) on a table of >= 2 routes; distinct by (table, method, path)")
	ev.Assume("only successfully registered route sets are examined; registrations that panic are tried on a throw-away Mux and left out")
	ev.Assume("for request paths that do not start with '/' (only '' and '*' can come from net/http) the oracle checks 'exactly one handler, no panic, bindings are substrings of the path', not which handler runs")
	rt.Main(m)
}

// checkRequest serves one request on the table and compares with the model. Returns "" if fine.
func checkRequest(t *rh.Table, method, path string) (msg string, tr rm.Trace) {
	return checkRequestRaw(t, method, path, 0)
}

// checkRequestRaw also gives the request an alternative (percent-encoded) spelling of the path in URL.RawPath, the way
// net/http does for a client that writes /%61 for /a; dispatch is defined on the decoded path.
func checkRequestRaw(t *rh.Table, method, path string, rawMask uint64) (msg string, tr rm.Trace) {
	got, pan := t.ServeRaw(method, path, rawMask)
	if pan != nil {
		return fmt.Sprintf("ServeHTTP panicked: %v", pan), tr
	}
	if got.Calls != 1 {
		return fmt.Sprintf("handler invocations = %d, want exactly 1", got.Calls), tr
	}
	if !strings.HasPrefix(path, "/") {
		// oracle deliberately silent on which handler; bindings must come from the path
		for n, v := range got.Params {
			if v != "" && !strings.Contains(path, v) {
				return fmt.Sprintf("RouteParam(%q) = %q is not part of the path", n, v), tr
			}
		}
		if got.Any != "" && !strings.Contains(path, got.Any) {
			return fmt.Sprintf("RouteParamAny() = %q is not part of the path", got.Any), tr
		}
		return "", tr
	}
	want, tr := rh.Expect(t.Routes, t.Names, method, path)
	if d := rh.Diff(got, want); d != "" {
		// classify: does a fresh Mux with the same table agree with the model?
		fresh := rh.NewTable(t.Routes)
		g2, p2 := fresh.Serve(method, path)
		if p2 == nil && rh.Diff(g2, want) == "" {
			d += " (a fresh Mux with the same table answers as the model: state leaked from an earlier request, cf. C05)"
		}
		return d + "\n  got:  " + got.String() + "\n  want: " + want.String(), tr
	}
	return "", tr
}

// checkForwarded serves a request whose handler dispatches a second request on the same Mux before it looks at its
// own Store (an internal forward): each of the two ServeHTTP calls is a request of its own and must be dispatched and
// bound as if the other did not exist.
func checkForwarded(t *rh.Table, method, path, innerMethod, innerPath string) string {
	outer, inner, po, pi := t.ServeForwarding(method, path, innerMethod, innerPath)
	if po != nil || pi != nil {
		return fmt.Sprintf("ServeHTTP panicked (outer: %v, forwarded: %v)", po, pi)
	}
	for _, x := range []struct {
		what, m, p string
		got        rh.Obs
	}{{"outer request", method, path, outer}, {"forwarded request", innerMethod, innerPath, inner}} {
		if x.got.Calls != 1 {
			return fmt.Sprintf("%s %s %q: handler invocations = %d, want exactly 1", x.what, x.m, x.p, x.got.Calls)
		}
		want, _ := rh.Expect(t.Routes, t.Names, x.m, x.p)
		if d := rh.Diff(x.got, want); d != "" {
			return fmt.Sprintf("%s %s %q (outer %s %q forwards to %s %q inside its handler): %s\n  got:  %s\n  want: %s", x.what, x.m, x.p, method, path, innerMethod, innerPath, d, x.got.String(), want.String())
		}
	}
	return ""
}

func TestRegression(t *testing.T) {
	mk := func(specs ...string) *rh.Table {
		var routes []rm.Route
		for _, s := range specs {
			m, p, _ := strings.Cut(s, " ")
			r, ok := rm.NewRoute(p, m)
			if !ok {
				t.Fatalf("bad spec %q", s)
			}
			routes = append(routes, r)
		}
		return rh.NewTable(routes)
	}
	tb := mk("GET /", "GET /a", "* /a", "POST /a/:x", "GET /a/b", "GET /a/:x/*", "GET /:y", "PUT /*", "GET //c//d/", "GET /e/*/ignored")
	for _, rq := range [][2]string{
		{"GET", ""}, {"CONNECT", ""}, {"GET", "*"}, {"OPTIONS", "*"}, {"GET", "/"}, {"POST", "/"}, {"PUT", "/"}, {"GET", "//"}, {"GET", "/a"}, {"POST", "/a"}, {"FOO", "/a"}, {"", "/a"},
		{"GET", "/a/"}, {"GET", "/a//b"}, {"GET", "/a/b/"}, {"GET", "/a/b/c/d"}, {"POST", "/a/b"}, {"GET", "/a/:x"}, {"GET", "/x"}, {"PUT", "/x/y/z//"}, {"GET", "/c/d"}, {"GET", "/c/d/"},
		{"GET", "/e/1/2"}, {"GET", "a"}, {"GET", "x/a"}, {"get", "/a"}, {"GET", "/a/*"}, {"GET", "/*"},
	} {
		if msg, _ := checkRequest(tb, rq[0], rq[1]); msg != "" {
			t.Errorf("table %s request %s %q: %s", rh.RenderTable(tb.Routes), rq[0], rq[1], msg)
		}
		ev.Case(false, 0, nil)
	}
	// defect 11 (fixed in 8fb23d7): a rejected registration left trie nodes behind that shadowed registered routes
	tb = mk("HEAD /:x/", "GET /a/*", "GET /u/:id")
	for _, a := range [][2]string{{"GET", "/favicon.ico/:x/:x/"}, {"GET", "/a/:x/:x"}, {"GET", "/a/b/:"}, {"GET", "/u/:name"}, {"GET", "/u/:id"}, {"FOO", "/q"}} {
		if !tb.AttemptRejected(a[1], a[0]) {
			t.Errorf("registration %s %q is expected to be rejected", a[0], a[1])
		}
	}
	for _, rq := range [][2]string{{"HEAD", "//favicon.ico"}, {"HEAD", "/favicon.ico"}, {"GET", "/a/foo"}, {"GET", "/a/b"}, {"GET", "/a/b/c"}, {"GET", "/u/42"}, {"GET", "/q"}} {
		if msg, _ := checkRequest(tb, rq[0], rq[1]); msg != "" {
			t.Errorf("after rejected registrations, table %s request %s %q: %s", rh.RenderTable(tb.Routes), rq[0], rq[1], msg)
		}
		ev.Case(false, 0, nil)
	}
}

// ---- exhaustive small scope ----

func smallRoutes() []rm.Route {
	elems := []string{"a", "b", ":x", "*"}
	var pats []string
	pats = append(pats, "/")
	for _, e := range elems {
		pats = append(pats, "/"+e)
	}
	for _, e1 := range elems[:3] {
		for _, e2 := range elems {
			if e1 == ":x" && e2 == ":x" {
				continue
			}
			pats = append(pats, "/"+e1+"/"+e2)
		}
	}
	var out []rm.Route
	for _, p := range pats {
		for _, m := range []string{"GET", "*"} {
			r, ok := rm.NewRoute(p, m)
			if !ok {
				panic("invalid small route " + p)
			}
			out = append(out, r)
		}
	}
	return out
}

func smallPaths() []string {
	segs := []string{"a", "b", "c", ""}
	paths := []string{"", "*"}
	var rec func(prefix string, depth int)
	rec = func(prefix string, depth int) {
		for _, s := range segs {
			p := prefix + "/" + s
			paths = append(paths, p)
			if depth < 4 {
				rec(p, depth+1)
			}
		}
	}
	rec("", 1)
	return paths
}

func TestExhaustive(t *testing.T) {
	maxRoutes := 2
	if rt.Thorough() {
		maxRoutes = 3
	}
	routes := smallRoutes()
	paths := smallPaths()
	si, sn := rt.Shard()
	var tables, reqs int64
	nfail := 0
	var idx int64
	runTable := func(sel []int) {
		idx++
		if int(idx%int64(sn)) != si || nfail >= 5 {
			return
		}
		var rs []rm.Route
		for _, i := range sel {
			rs = append(rs, routes[i])
		}
		tb := rh.NewTable(rs)
		tables++
		for _, p := range paths {
			for _, m := range []string{"GET", "POST"} {
				msg, tr := checkRequest(tb, m, p)
				reqs++
				if msg != "" {
					nfail++
					if nfail <= 5 {
						t.Errorf("table %s request %s %q: %s", rh.RenderTable(rs), m, p, msg)
					}
				}
				nt := len(rs) >= 2 && tr.Decision()
				ev.Case(nt, ev.Hash(rh.RenderTable(rs), m, p), func() string {
					return fmt.Sprintf("table %s request %s %q", rh.RenderTable(rs), m, p)
				})
			}
		}
	}
	n := len(routes)
	for i := 0; i < n; i++ {
		runTable([]int{i})
		if maxRoutes < 2 {
			continue
		}
		for j := i + 1; j < n; j++ {
			runTable([]int{i, j})
			if maxRoutes < 3 {
				continue
			}
			for k := j + 1; k < n; k++ {
				runTable([]int{i, j, k})
			}
		}
	}
	scope := fmt.Sprintf("all %d tables of <= %d distinct routes out of %d (patterns of <= 2 elements over {a,b,:x,*}, methods {GET,*}) x %d paths (<= 4 segments over {a,b,c,''}, plus '' and '*') x {GET,POST}", idx, maxRoutes, n, len(paths))
	if sn > 1 {
		scope = fmt.Sprintf("shard %d/%d of: ", si, sn) + scope
	}
	ev.Exhaustive(scope)
	ev.LabelN("exhaustive_tables", tables)
	ev.LabelN("exhaustive_requests", reqs)
}

// ---- random tables ----

// the pools contain, besides ordinary segments, the words the implementation uses internally as trie keys (":param",
// ":any", method tags): a collision between the literal and the internal namespaces must not be reachable from a request
var litPool = []string{"a", "b", "ab", "a.b", "*x", "%2F", "static", "favicon.ico", "c", "x", "get", ":", "é", "a b", "**", "A", "a-rather-long-literal-segment-0123456789"}

// (names that differ only in letter case, or fold to the same letter, are different names)
var paramPool = []string{":x", ":y", ":id", ":", ":x", ":X", ":ID", ":Id", ":Y", ":k", ":\u212a"}
var methodPool = append(append([]string{}, rm.Methods...), "*", "*", "GET", "GET", "POST")

func genPattern() *rapid.Generator[string] {
	return rapid.Custom(func(t *rapid.T) string {
		n := rapid.IntRange(0, 4).Draw(t, "nelem")
		var sb strings.Builder
		for i := 0; i < n; i++ {
			sb.WriteString(strings.Repeat("/", rapid.SampledFrom([]int{1, 1, 1, 2, 3}).Draw(t, "slashes")))
			switch rapid.IntRange(0, 9).Draw(t, "kind") {
			case 0, 1, 2:
				sb.WriteString(rapid.SampledFrom(paramPool).Draw(t, "param"))
			case 3:
				sb.WriteString("*")
			default:
				sb.WriteString(rapid.SampledFrom(litPool[:10]).Draw(t, "lit"))
			}
		}
		if n == 0 || rapid.IntRange(0, 3).Draw(t, "trail") == 0 {
			sb.WriteString(strings.Repeat("/", rapid.IntRange(1, 2).Draw(t, "ntrail")))
		}
		return sb.String()
	})
}

// genTable draws 1..8 routes and keeps those the real Mux accepts.
// attempt is a registration the Mux rejects; when onMux is set it is also performed (and recovered from) on the Mux
// under test, after the first `after` accepted routes.
type attempt struct {
	pattern, method string
	after           int
}

func genTable(t *rapid.T) (accepted []rm.Route, rejected int, ok bool) {
	accepted, _, rejected, ok = genTableWithAttempts(t)
	return
}

func genTableWithAttempts(t *rapid.T) (accepted []rm.Route, attempts []attempt, rejected int, ok bool) {
	n := rapid.IntRange(1, 8).Draw(t, "nroutes")
	for i := 0; i < n; i++ {
		p := genPattern().Draw(t, "pattern")
		m := rapid.SampledFrom(methodPool).Draw(t, "method")
		if len(accepted) > 0 && rapid.IntRange(0, 5).Draw(t, "variantOfEarlier") == 0 {
			// a second registration for the trie position of an earlier route: same shape and method, other
			// parameter names (a duplicate the Mux must reject without touching the route that owns the position)
			a := accepted[rapid.IntRange(0, len(accepted)-1).Draw(t, "earlier")]
			frags := strings.Split(a.Pattern, "/")
			for j, f := range frags {
				if len(f) > 1 && f[0] == ':' {
					frags[j] = rapid.SampledFrom([]string{":x", ":y", ":id", ":n", ":zz-unused"}).Draw(t, "rename")
				}
			}
			p = strings.Join(frags, "/")
			if rapid.Bool().Draw(t, "sameMethod") {
				m = a.Method // a duplicate: rejected
			} // else: the same shape under another method, with parameter names of its own - a route like any other
		} else if rapid.IntRange(0, 30).Draw(t, "badmethod") == 0 {
			m = rapid.SampledFrom([]string{"", "get", "FOO", "**"}).Draw(t, "bad")
		}
		r, valid := rm.NewRoute(p, m)
		for _, a := range accepted {
			if rm.SameShape(a, r) {
				valid = false
			}
		}
		real := rh.TryRegister(accepted, p, m)
		if real != valid {
			ev.Label("gen:model_and_mux_disagree_on_route_validity")
			if real {
				// the Mux accepted what the model calls a duplicate/invalid route: dispatch for this table is undefined
				return nil, nil, 0, false
			}
		}
		if real {
			accepted = append(accepted, r)
		} else {
			rejected++
			if KnownMethodForAttempt(m) {
				attempts = append(attempts, attempt{p, m, len(accepted)})
			}
		}
	}
	return accepted, attempts, rejected, len(accepted) > 0
}

// KnownMethodForAttempt: an unknown method is rejected before the trie is touched; only the other rejections
// (duplicate route, empty or duplicate parameter name) are interesting as attempts on the Mux under test.
func KnownMethodForAttempt(m string) bool { return rm.KnownMethod(m) }

// buildTable registers the accepted routes and, in between, performs the rejected registrations on the same Mux.
func buildTable(routes []rm.Route, attempts []attempt) (*rh.Table, string) {
	tb := rh.NewTable(nil)
	ai := 0
	for i := 0; i <= len(routes); i++ {
		for ai < len(attempts) && attempts[ai].after == i {
			if !tb.AttemptRejected(attempts[ai].pattern, attempts[ai].method) {
				return nil, fmt.Sprintf("registration %s %q was rejected on a fresh Mux but accepted on the Mux under test", attempts[ai].method, attempts[ai].pattern)
			}
			ai++
		}
		if i < len(routes) {
			tb.Add(routes[i])
		}
	}
	return tb, ""
}

func genRequestPath(routes []rm.Route) *rapid.Generator[string] {
	fromTable := rapid.Custom(func(t *rapid.T) string {
		r := rapid.SampledFrom(routes).Draw(t, "route")
		var sb strings.Builder
		for _, e := range r.Elems {
			if rapid.IntRange(0, 11).Draw(t, "strayInBetween") == 0 {
				// a segment that means something elsewhere (file systems, URLs) and is a segment like any other here
				sb.WriteString("/" + rapid.SampledFrom([]string{".", ".", "..", "...", "%2F", "%2e", " ", "~", "-", "index.html"}).Draw(t, "straySegment"))
			}
			sb.WriteString(strings.Repeat("/", rapid.SampledFrom([]int{1, 1, 1, 1, 2, 3}).Draw(t, "slashes")))
			switch e.Kind {
			case rm.Lit:
				if rapid.IntRange(0, 7).Draw(t, "miss") == 0 {
					sb.WriteString(rapid.SampledFrom(litPool).Draw(t, "otherlit"))
				} else {
					sb.WriteString(e.Text)
				}
			case rm.Param:
				sb.WriteString(rapid.SampledFrom([]string{"v", "a", "b", "42", ":x", "*", "", "é", "a b", "x.y", ":param", ":any", ":id", "get", "*x", ".", ".."}).Draw(t, "pval"))
			case rm.Any:
				k := rapid.IntRange(0, 4).Draw(t, "tail")
				var parts []string
				for j := 0; j < k; j++ {
					parts = append(parts, rapid.SampledFrom([]string{"t", "", "a", "*", ":x", "long-tail-segment", ":any", ":param", "post"}).Draw(t, "tailseg"))
				}
				sb.WriteString(strings.Join(parts, "/"))
			}
		}
		switch rapid.IntRange(0, 5).Draw(t, "end") {
		case 0:
			sb.WriteString("/")
		case 1:
			sb.WriteString("/" + rapid.SampledFrom(litPool).Draw(t, "extra"))
		case 2:
			sb.WriteString("//")
		}
		s := sb.String()
		if s == "" {
			s = "/"
		}
		return s
	})
	freeform := rapid.Custom(func(t *rapid.T) string {
		n := rapid.IntRange(0, 6).Draw(t, "nseg")
		var sb strings.Builder
		for i := 0; i < n; i++ {
			sb.WriteString("/")
			sb.WriteString(rapid.SampledFrom(append([]string{"", "", ":x", "*", "v", ":param", ":any", "param", "any", "get", "post", "head"}, litPool...)).Draw(t, "seg"))
		}
		return sb.String()
	})
	odd := rapid.SampledFrom([]string{"", "*", "/", "//", "///", "a", "a/b", "x/a", "/*", "/:x", "?", "/a?b", "\x00", "/\x00/"})
	arbitrary := rapid.StringOfN(rapid.RuneFrom([]rune{'/', 'a', 'b', ':', '*', 'x', '.', '%'}), 0, 12, -1)
	return rapid.OneOf(fromTable, fromTable, fromTable, freeform, odd, arbitrary)
}

var reqMethods = append(append([]string{}, rm.Methods...), "GET", "GET", "POST", "FOO", "", "get", "*")

func TestGenerated(t *testing.T) {
	rt.Check(t, 4000, 1500000, func(t *rapid.T) {
		routes, attempts, rejected, ok := genTableWithAttempts(t)
		if !ok {
			ev.Inconclusive(1)
			return
		}
		tb := rh.NewTable(routes)
		if rejected > 0 {
			ev.Label("gen:table_had_rejected_registrations")
		}
		if len(attempts) > 0 && rapid.Bool().Draw(t, "attemptsOnMuxUnderTest") {
			// the program tried the rejected registrations on this very Mux and recovered: the successfully registered
			// routes must be served as if that had never happened
			var why string
			if tb, why = buildTable(routes, attempts); tb == nil {
				ev.Inconclusive(1)
				_ = why
				return
			}
			ev.Label("gen:rejected_registrations_attempted_on_mux_under_test")
		}
		nreq := rapid.IntRange(1, 10).Draw(t, "nreq")
		// some tables grow while they are in use: the last routes are registered only after the first requests have
		// been served (a set of successfully registered routes is what has been registered so far)
		var later []rm.Route
		registerAt := -1
		if len(tb.Routes) == len(routes) && len(routes) > 1 && rapid.IntRange(0, 3).Draw(t, "lateRegistration") == 0 {
			split := rapid.IntRange(1, len(routes)-1).Draw(t, "registeredAtFirst")
			later = routes[split:]
			tb = rh.NewTable(routes[:split])
			registerAt = rapid.IntRange(1, nreq).Draw(t, "registerRestBeforeRequest")
			ev.Label("gen:routes_registered_after_requests_were_served")
		}
		for i := 0; i < nreq; i++ {
			if i == registerAt {
				for _, r := range later {
					tb.Add(r)
				}
			}
			m := rapid.SampledFrom(reqMethods).Draw(t, "reqmethod")
			p := genRequestPath(routes).Draw(t, "reqpath")
			var rawMask uint64
			if rapid.IntRange(0, 3).Draw(t, "withRawPath") == 0 {
				rawMask = rapid.Uint64().Draw(t, "rawMask")
				ev.Label("req:with_RawPath_spelling")
			}
			if rapid.IntRange(0, 7).Draw(t, "aborts") == 0 {
				// the handler of this request aborts it (panic(http.ErrAbortHandler) escapes ServeHTTP, the caller
				// recovers as net/http does): the request itself is still dispatched and bound as the model says, and
				// whatever the Mux keeps between requests must not carry its bindings into the next one
				m, p := rapid.SampledFrom(reqMethods).Draw(t, "abortedMethod"), genRequestPath(routes).Draw(t, "abortedPath") // another request than the one that follows
				tb.AbortNext = true
				got, pan := tb.ServeRaw(m, p, 0)
				if pan != http.ErrAbortHandler {
					t.Fatalf("table %s request %q %q with an aborting handler: recovered %v from ServeHTTP, want http.ErrAbortHandler", rh.RenderTable(routes), m, p, pan)
				}
				if strings.HasPrefix(p, "/") {
					want, _ := rh.Expect(tb.Routes, tb.Names, m, p)
					if d := rh.Diff(got, want); d != "" {
						t.Fatalf("table %s request %q %q (handler aborts afterwards): %s", rh.RenderTable(routes), m, p, d)
					}
				}
				tb.AbortNext = false
				ev.Label("req:handler_aborts_with_ErrAbortHandler")
			}
			if rapid.IntRange(0, 7).Draw(t, "replaceNoRoute") == 0 {
				tb.ReplaceNoRoute() // HandleNoRoute again, between requests: the new handler is the no-route handler now
				ev.Label("gen:no_route_handler_replaced_between_requests")
			}
			if strings.HasPrefix(p, "/") && rawMask == 0 && rapid.IntRange(0, 4).Draw(t, "forwards") == 0 {
				// the handler of this request forwards another request through the same Mux before it reads its own Store
				m2 := rapid.SampledFrom(reqMethods).Draw(t, "fwdmethod")
				p2 := genRequestPath(routes).Filter(func(s string) bool { return strings.HasPrefix(s, "/") }).Draw(t, "fwdpath")
				if msg := checkForwarded(tb, m, p, m2, p2); msg != "" {
					t.Fatalf("table %s: %s", rh.RenderTable(routes), msg)
				}
				ev.Label("req:handler_forwards_another_request_through_the_same_Mux")
			}
			msg, tr := checkRequestRaw(tb, m, p, rawMask)
			if msg != "" {
				t.Fatalf("table %s request %q %q: %s", rh.RenderTable(routes), m, p, msg)
			}
			for name, on := range map[string]bool{"lit_over_param": tr.LitOverParam, "param_over_any": tr.ParamOverAny, "lit_over_any": tr.LitOverAny, "exact_over_star": tr.ExactOverStar,
				"skipped_empty_segment": tr.SkippedEmpty, "last_segment_empty": tr.LastEmpty, "root_special": tr.RootSpecial, "root_fallthrough": tr.RootFallThrough, "any_with_tail": tr.AnyTail} {
				if on {
					ev.Label("decision:" + name)
				}
			}
			if !strings.HasPrefix(p, "/") {
				ev.Label("req:path_without_leading_slash")
			}
			nt := len(routes) >= 2 && tr.Decision()
			ev.Case(nt, ev.Hash(rh.RenderTable(routes), m, p), func() string {
				return fmt.Sprintf("table %s request %q %q", rh.RenderTable(routes), m, p)
			})
		}
	})
}

// FuzzDispatch decodes bytes into a table and a request: the table part is a sequence of
// (method selector, pattern) records separated by 0x00, the last record is (method selector, path).
func FuzzDispatch(f *testing.F) {
	f.Add([]byte("\x00/a/:x\x00\x09/a/*\x00\x00/a/b\x00\x00/a/b/"))
	f.Add([]byte("\x00/\x00\x09/*\x00\x02/"))
	f.Add([]byte("\x00/:x/:y\x00\x00//1//2"))
	f.Fuzz(func(t *testing.T, data []byte) {
		recs := strings.Split(string(data), "\x00")
		if len(recs) < 2 || len(recs) > 12 {
			return
		}
		var parts []string
		for _, r := range recs {
			if r != "" {
				parts = append(parts, r)
			}
		}
		if len(parts) < 2 {
			return
		}
		allm := append(append([]string{}, rm.Methods...), "*")
		var routes []rm.Route
		for _, rec := range parts[:len(parts)-1] {
			m := allm[int(rec[0])%len(allm)]
			p := rec[1:]
			if !strings.HasPrefix(p, "/") {
				p = "/" + p
			}
			r, valid := rm.NewRoute(p, m)
			for _, a := range routes {
				if rm.SameShape(a, r) {
					valid = false
				}
			}
			real := rh.TryRegister(routes, p, m)
			if real && !valid {
				return
			}
			if real {
				routes = append(routes, r)
			}
		}
		if len(routes) == 0 {
			return
		}
		last := parts[len(parts)-1]
		m := reqMethods[int(last[0])%len(reqMethods)]
		tb := rh.NewTable(routes)
		if msg, _ := checkRequest(tb, m, last[1:]); msg != "" {
			t.Fatalf("table %s request %q %q: %s", rh.RenderTable(routes), m, last[1:], msg)
		}
	})
}
