// C07 — TaskLane shuts down cleanly when its context is cancelled (fault enumeration).
package c07

import (
	"context"
	"fmt"
	"regexp"
	"runtime"
	"strings"
	"sync"
	"sync/atomic"
	"testing"
	"time"

	"github.com/whoisnian/glb/tasklane"

	"pgregory.net/rapid"

	"verif/harness/internal/ev"
	ls "verif/harness/internal/lanesim"
	"verif/harness/internal/rt"
)

func TestMain(m *testing.M) {
	ev.Rule("cases = (lane state, cancel injection point, order of release): enumerated templates {hook point Q1,Q2,Q3,W1,W2,P1} x {own worker busy/idle} x {other workers busy/idle} x {buffer empty/non-empty} x {cancel func / deadline expiry} x {gates opened before / after Wait()} " +
		"each combined with generated loads and lane/queue sizes, plus freely generated programs with a cancel in the middle; all executed inside a synctest bubble; oracle = every PushTask begun after the cancel returns exactly ctx.Err() without enqueuing, " +
		"blocked producers are released, Wait() returns (otherwise the bubble reports a deadlock), no goroutine is left when the program ends (bubble leak check), and after Wait() no start counter changes; " +
		"non-trivial = the cancel landed while a lane goroutine was parked at a hook point or a producer was blocked; distinct by program hash")
	ev.Assume("cancellation points are the six hook points plus every quiescent state the generated loads reach; steps inside the runtime select cannot be split further")
	rt.Main(m)
}

var bias = ls.Bias{
	Weights:   map[ls.OpKind]int{ls.OpPush: 6, ls.OpSpawnPush: 7, ls.OpOpen: 2, ls.OpSettle: 4, ls.OpAdvance: 2, ls.OpStatus: 1, ls.OpFreeze: 4, ls.OpThaw: 1, ls.OpCancel: 4},
	TaskKinds: []ls.TaskKind{ls.TInstant, ls.TInstant, ls.TInstant, ls.TGated, ls.TGated, ls.TSleep, ls.TSleep, ls.TPanic, ls.TCancel, ls.TGoexit},
	Deadline:  25,
	MaxOps:    40,
	Cancel:    true,
}

var loadBias = ls.Bias{
	Weights:   map[ls.OpKind]int{ls.OpPush: 6, ls.OpSpawnPush: 4, ls.OpOpen: 2, ls.OpSettle: 2, ls.OpAdvance: 1},
	TaskKinds: []ls.TaskKind{ls.TInstant, ls.TInstant, ls.TGated, ls.TSleep, ls.TPanic, ls.TGoexit},
	MaxOps:    12,
}

var hookHits = map[string]int{}

func judge(t *rapid.T, p ls.Program, what string) {
	res, bubble := ls.RunInBubble(t, p)
	if bubble != "" {
		t.Fatalf("the lane did not shut down: %s\n%s\nprogram: %s", bubble, what, p)
	}
	if own := ls.Own(res, "C07"); len(own) > 0 {
		t.Fatalf("%s\n%s\nprogram: %s", strings.Join(own, "\n"), what, p)
	}
	for k, v := range res.HookHits {
		hookHits[k] += v
	}
	nt := res.CancelWithFrozen || res.CancelWithBlocked
	if res.CancelWithFrozen {
		ev.Label("cancel_with_goroutine_parked_at:" + res.CancelPoint)
	}
	if res.CancelWithBlocked {
		ev.Label("cancel_with_producer_blocked")
	}
	for _, o := range p.Ops {
		if (o.Kind == ls.OpPush || o.Kind == ls.OpSpawnPush) && o.Task.Kind == ls.TGoexit {
			ev.Label("history_contains_a_task_that_ends_its_goroutine_(Goexit)")
			break
		}
	}
	if p.Abrupt {
		ev.Label("new_push_cancel_wait_back_to_back")
		nt = true
	}
	if p.EarlyWaiter {
		ev.Label("Wait_called_straight_after_New")
	}
	if p.BornDone {
		ev.Label("lane_created_on_a_context_that_is_already_done")
		nt = true
	}
	if res.ByDeadline {
		ev.Label("context_with_deadline")
	}
	if p.LateGates {
		ev.Label("gates_opened_after_Wait_was_called")
	}
	ev.Label([]string{"ctx:plain", "ctx:with_cause", "ctx:value_carrying_grandchild_of_cancelled_parent", "ctx:foreign_implementation"}[p.CtxFlavor])
	ev.Case(nt, ev.Hash(p.String()), func() string {
		return fmt.Sprintf("%s %s => accepted=%d started=%d ctxRejected=%d", what, p, res.Accepted, res.Started, res.PushRejectedByCtx)
	})
}

func TestGeneratedCancel(t *testing.T) {
	rt.Check(t, 2000, 3000000, func(t *rapid.T) {
		judge(t, ls.GenProgram(bias).Draw(t, "program"), "generated")
	})
	checkHooks(t)
}

// TestEnumeratedCancelPoints visits every template (one subtest each); each is combined with generated loads and sizes.
func TestEnumeratedCancelPoints(t *testing.T) {
	templates := ls.AllCancelTemplates()
	for i, tpl := range templates {
		tpl := tpl
		t.Run(fmt.Sprintf("T%03d", i), func(t *testing.T) {
			rt.Check(t, 4, 4000, func(t *rapid.T) {
				lanes := rapid.IntRange(1, 4).Draw(t, "laneSize")
				queue := rapid.IntRange(0, 3).Draw(t, "queueSize")
				load := ls.GenProgram(loadBias).Draw(t, "load")
				var ops []ls.Op
				for _, o := range load.Ops {
					o.Lane %= lanes
					ops = append(ops, o)
				}
				ev.Label("template:" + tpl.Point)
				prog := tpl.Program(lanes, queue, ops)
				prog.CtxFlavor = load.CtxFlavor
				judge(t, prog, tpl.String())
			})
		})
	}
	checkHooks(t)
}

// TestEveryTemplateOnce is the exhaustive pass over the template space itself (without loads).
func TestEveryTemplateOnce(t *testing.T) {
	templates := ls.AllCancelTemplates()
	idx := 0
	rt.Check(t, 1, 1, func(t *rapid.T) {
		for ; idx < len(templates); idx++ {
			for _, sz := range [][2]int{{1, 0}, {2, 1}, {3, 2}} {
				prog := templates[idx].Program(sz[0], sz[1], nil)
				prog.CtxFlavor = (idx + sz[0]) % ls.NumCtxFlavors
				judge(t, prog, templates[idx].String())
			}
		}
	})
	ev.Exhaustive(fmt.Sprintf("all %d cancel templates (6 hook points x own/other workers busy x buffer x cancel kind x gate timing) x 3 lane/queue sizes, without extra load", len(templates)))
}

func checkHooks(t *testing.T) {
	if t.Failed() {
		return
	}
	for _, pt := range ls.Points {
		if hookHits[pt] == 0 {
			rt.Inconclusivef(t, "hook point %s was never reached: the verif hooks in tasklane are missing or moved", pt)
		}
	}
}

// ---- many producers racing for the last free slots when the cancel lands (real clock) ----

type pinTask struct {
	gate    chan struct{}
	started atomic.Int32
}

func (p *pinTask) Start() { p.started.Add(1); <-p.gate }

// a producer that waits inside PushTask - in a channel send, or in a select whatever its arms are - half a minute after
// the cancel (the lane's timeout is an hour): "producers blocked in PushTask are released" does not hold for it
var bareSendInPushTask = regexp.MustCompile(`goroutine \d+ \[(?:chan send|select)[^\]]*\]:\n(?:[^\n]+\n){0,8}?[^\n]*tasklane\.\(\*TaskLane\)\.PushTask`)

// TestProducersRacingAtCancel: the lane's only worker is busy, its queue goroutine holds a task it cannot hand over, the
// buffer has one to three free slots - and several times as many producers as there are processors, released together,
// call PushTask with a timeout of an hour. Then the context is cancelled. Whoever got a slot has nil; everybody else is
// released by the cancel. The windows in which two producers both believe a slot is theirs are nanoseconds wide: they
// are reached by the number of rounds. A producer that is still inside PushTask long after the cancel is reported when
// the goroutine dump shows it in a channel send without a select around it - a state the unchanged PushTask cannot be in.
func TestProducersRacingAtCancel(t *testing.T) {
	rt.Check(t, 4, 120, func(t *rapid.T) {
		rounds := 25
		producers := 8 * runtime.GOMAXPROCS(0)
		for round := 0; round < rounds; round++ {
			q := rapid.IntRange(1, 3).Draw(t, "queueSize")
			free := rapid.IntRange(1, q).Draw(t, "freeSlots")
			ctx, cancel := context.WithCancel(context.Background())
			tl := tasklane.New(ctx, 1, q)
			tl.SetTimeout(time.Hour)
			gate := make(chan struct{})
			pin := &pinTask{gate: gate}
			if err := tl.PushTask(pin, 0); err != nil {
				t.Fatalf("round %d: PushTask on a fresh lane returned %v", round, err)
			}
			for i := 0; pin.started.Load() == 0; i++ {
				if i > 10_000_000 {
					cancel()
					fmt.Println("HARNESS-INCONCLUSIVE: the first task was not started")
					t.Fatalf("harness inconclusive")
				}
				runtime.Gosched()
			}
			tl.PushTask(&pinTask{gate: gate}, 0) // taken by the queue goroutine, which finds the worker busy
			time.Sleep(time.Millisecond)
			for i := 0; i < q-free; i++ {
				tl.PushTask(&pinTask{gate: gate}, 0)
			}
			var arrived, returned atomic.Int32
			var wg sync.WaitGroup
			for i := 0; i < producers; i++ {
				wg.Add(1)
				go func() {
					defer wg.Done()
					arrived.Add(1)
					for spin := 0; arrived.Load() < int32(producers); spin++ {
						if spin > 200 {
							runtime.Gosched()
						}
					}
					tl.PushTask(&pinTask{gate: gate}, 0)
					returned.Add(1)
				}()
			}
			for arrived.Load() < int32(producers) {
				runtime.Gosched()
			}
			time.Sleep(time.Duration(rapid.IntRange(0, 3).Draw(t, "cancelAfterMs")) * time.Millisecond)
			cancel()
			deadline := time.Now().Add(30 * time.Second)
			for returned.Load() < int32(producers) && time.Now().Before(deadline) {
				time.Sleep(time.Millisecond)
			}
			if n := int32(producers) - returned.Load(); n > 0 {
				buf := make([]byte, 8<<20)
				buf = buf[:runtime.Stack(buf, true)]
				close(gate)
				if bareSendInPushTask.Match(buf) {
					t.Fatalf("round %d (queueSize %d, %d free slots, %d producers): 30 s after the context was cancelled %d PushTask call(s) have not returned; the goroutine dump shows them waiting inside PushTask (a channel send or a select that the cancel does not reach; the lane's timeout is an hour)", round, q, free, producers, n)
				}
				fmt.Printf("HARNESS-INCONCLUSIVE: %d producers have not returned 30 s after the cancel, but none of them is waiting inside PushTask\n", n)
				t.Fatalf("harness inconclusive")
			}
			close(gate)
			wg.Wait()
			tl.Wait()
		}
		ev.LabelN("rounds_of_producers_racing_for_the_last_slots_at_cancel", int64(rounds))
		ev.Case(true, ev.Hash("race", fmt.Sprint(producers)), func() string {
			return fmt.Sprintf("%d rounds: %d producers released together against 1-3 free slots of a lane whose worker is busy, then cancel", rounds, producers)
		})
	})
}
