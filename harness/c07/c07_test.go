// C07 — TaskLane shuts down cleanly when its context is cancelled (fault enumeration).
package c07

import (
	"fmt"
	"strings"
	"testing"

	"pgregory.net/rapid"

	"verif/harness/internal/ev"
	ls "verif/harness/internal/lanesim"
	"verif/harness/internal/rt"
)

func TestMain(m *testing.M) {
	ev.Rule("cases = (lane state, cancel injection point, order of release): enumerated templates {hook point Q1,Q2,Q3,W1,W2,P1} x {own worker busy/idle} x {other workers busy/idle} x {buffer empty/non-empty} x {cancel func / deadline expiry} x {gates opened before / after Wait()} " +
		"each combined with generated loads and lane/queue sizes, plus freely generated programs with a cancel in the middle; all executed inside a synctest bubble; oracle = every PushTask begun after the cancel returns exactly ctx.Err() without enqueuing, " +
		"blocked producers are released, Wait() returns (otherwise the bubble reports a deadlock), no goroutine is left when the program ends (bubble leak check), and after Wait() no start counter changes; " +
		"non-trivial = the cancel landed while a lane goroutine was parked at a hook point or a producer was blocked; distinct by program hash")
	ev.Assume("cancellation points are the six hook points plus every quiescent state the generated loads reach; steps inside the runtime select cannot be split further")
	rt.Main(m)
}

var bias = ls.Bias{
	Weights:   map[ls.OpKind]int{ls.OpPush: 6, ls.OpSpawnPush: 7, ls.OpOpen: 2, ls.OpSettle: 4, ls.OpAdvance: 2, ls.OpStatus: 1, ls.OpFreeze: 4, ls.OpThaw: 1, ls.OpCancel: 4},
	TaskKinds: []ls.TaskKind{ls.TInstant, ls.TInstant, ls.TInstant, ls.TGated, ls.TGated, ls.TSleep, ls.TSleep, ls.TPanic, ls.TCancel, ls.TGoexit},
	Deadline:  25,
	MaxOps:    40,
	Cancel:    true,
}

var loadBias = ls.Bias{
	Weights:   map[ls.OpKind]int{ls.OpPush: 6, ls.OpSpawnPush: 4, ls.OpOpen: 2, ls.OpSettle: 2, ls.OpAdvance: 1},
	TaskKinds: []ls.TaskKind{ls.TInstant, ls.TInstant, ls.TGated, ls.TSleep, ls.TPanic, ls.TGoexit},
	MaxOps:    12,
}

var hookHits = map[string]int{}

func judge(t *rapid.T, p ls.Program, what string) {
	res, bubble := ls.RunInBubble(t, p)
	if bubble != "" {
		t.Fatalf("the lane did not shut down: %s\n%s\nprogram: %s", bubble, what, p)
	}
	if own := ls.Own(res, "C07"); len(own) > 0 {
		t.Fatalf("%s\n%s\nprogram: %s", strings.Join(own, "\n"), what, p)
	}
	for k, v := range res.HookHits {
		hookHits[k] += v
	}
	nt := res.CancelWithFrozen || res.CancelWithBlocked
	if res.CancelWithFrozen {
		ev.Label("cancel_with_goroutine_parked_at:" + res.CancelPoint)
	}
	if res.CancelWithBlocked {
		ev.Label("cancel_with_producer_blocked")
	}
	for _, o := range p.Ops {
		if (o.Kind == ls.OpPush || o.Kind == ls.OpSpawnPush) && o.Task.Kind == ls.TGoexit {
			ev.Label("history_contains_a_task_that_ends_its_goroutine_(Goexit)")
			break
		}
	}
	if p.Abrupt {
		ev.Label("new_push_cancel_wait_back_to_back")
		nt = true
	}
	if p.EarlyWaiter {
		ev.Label("Wait_called_straight_after_New")
	}
	if p.BornDone {
		ev.Label("lane_created_on_a_context_that_is_already_done")
		nt = true
	}
	if res.ByDeadline {
		ev.Label("context_with_deadline")
	}
	if p.LateGates {
		ev.Label("gates_opened_after_Wait_was_called")
	}
	ev.Label([]string{"ctx:plain", "ctx:with_cause", "ctx:value_carrying_grandchild_of_cancelled_parent", "ctx:foreign_implementation"}[p.CtxFlavor])
	ev.Case(nt, ev.Hash(p.String()), func() string {
		return fmt.Sprintf("%s %s => accepted=%d started=%d ctxRejected=%d", what, p, res.Accepted, res.Started, res.PushRejectedByCtx)
	})
}

func TestGeneratedCancel(t *testing.T) {
	rt.Check(t, 2000, 3000000, func(t *rapid.T) {
		judge(t, ls.GenProgram(bias).Draw(t, "program"), "generated")
	})
	checkHooks(t)
}

// TestEnumeratedCancelPoints visits every template (one subtest each); each is combined with generated loads and sizes.
func TestEnumeratedCancelPoints(t *testing.T) {
	templates := ls.AllCancelTemplates()
	for i, tpl := range templates {
		tpl := tpl
		t.Run(fmt.Sprintf("T%03d", i), func(t *testing.T) {
			rt.Check(t, 4, 4000, func(t *rapid.T) {
				lanes := rapid.IntRange(1, 4).Draw(t, "laneSize")
				queue := rapid.IntRange(0, 3).Draw(t, "queueSize")
				load := ls.GenProgram(loadBias).Draw(t, "load")
				var ops []ls.Op
				for _, o := range load.Ops {
					o.Lane %= lanes
					ops = append(ops, o)
				}
				ev.Label("template:" + tpl.Point)
				prog := tpl.Program(lanes, queue, ops)
				prog.CtxFlavor = load.CtxFlavor
				judge(t, prog, tpl.String())
			})
		})
	}
	checkHooks(t)
}

// TestEveryTemplateOnce is the exhaustive pass over the template space itself (without loads).
func TestEveryTemplateOnce(t *testing.T) {
	templates := ls.AllCancelTemplates()
	idx := 0
	rt.Check(t, 1, 1, func(t *rapid.T) {
		for ; idx < len(templates); idx++ {
			for _, sz := range [][2]int{{1, 0}, {2, 1}, {3, 2}} {
				prog := templates[idx].Program(sz[0], sz[1], nil)
				prog.CtxFlavor = (idx + sz[0]) % ls.NumCtxFlavors
				judge(t, prog, templates[idx].String())
			}
		}
	})
	ev.Exhaustive(fmt.Sprintf("all %d cancel templates (6 hook points x own/other workers busy x buffer x cancel kind x gate timing) x 3 lane/queue sizes, without extra load", len(templates)))
}

func checkHooks(t *testing.T) {
	if t.Failed() {
		return
	}
	for _, pt := range ls.Points {
		if hookHits[pt] == 0 {
			rt.Inconclusivef(t, "hook point %s was never reached: the verif hooks in tasklane are missing or moved", pt)
		}
	}
}
