// C20 — daemon.Launch returns the daemon's pid, after Done(), with the daemon orphaned (fault enumeration over timings).
package c20

import (
	"bytes"
	"fmt"
	"os"
	"os/exec"
	"os/signal"
	"path/filepath"
	"runtime"
	"strconv"
	"strings"
	"sync"
	"syscall"
	"testing"
	"time"

	"github.com/whoisnian/glb/daemon"
	"pgregory.net/rapid"

	"verif/harness/internal/ev"
	"verif/harness/internal/rt"
)

const daemonName = "c20-daemon"
const childOnlyName = daemonName + "-registered-in-the-re-executed-process-only"

// The test binary plays three roles, exactly like the repository's own test: launcher and daemon are
// entered through daemon.Run() in init(); the "caller" role (a short-lived process that calls Launch
// and exits) is entered from TestMain.
func init() {
	for _, n := range append(append([]string{}, daemonNames...), oddNames...) {
		n := n
		daemon.Register(n, func() { daemonMain(n) })
	}
	if _, reexecuted := os.LookupEnv("ENV_DAEMON_NAME"); reexecuted {
		// a handler that only the re-executed processes know: a program whose daemon side is set up by a code path the
		// calling side never takes (or whose Launch call comes before the registration). Launch(name) starts the
		// launcher; it is the launcher and the daemon that look the name up.
		daemon.Register(childOnlyName, func() { daemonMain(childOnlyName) })
	}
	if daemon.Run() {
		os.Exit(0)
	}
}

// several handlers under several names: Launch(name) must start the handler registered under that very name
var daemonNames = []string{daemonName, daemonName + "-b", daemonName + "-c", daemonName + "-d"}

// names are strings: one with a blank at either end, in other letter case or with a tab inside is a name of its own,
// next to the handler registered under the plain spelling
var oddNames = []string{daemonName + " ", " " + daemonName, "C20-Daemon", daemonName + "\t-b", daemonName + "\n"}

func daemonMain(self string) {
	if os.Getenv("C20_CRASH") != "" {
		os.Exit(3) // a daemon that dies before it ever calls Done()
	}
	if os.Getenv("C20_HANGUP") != "" {
		os.WriteFile(filepath.Join(os.Getenv("C20_DIR"), fmt.Sprintf("onitsway.%d", os.Getpid())), nil, 0o644)
	}
	if ms, _ := strconv.Atoi(os.Getenv("C20_DELAY_MS")); ms > 0 {
		time.Sleep(time.Duration(ms) * time.Millisecond)
	}
	dir := os.Getenv("C20_DIR")
	token := os.Getenv("C20_TOKEN")
	if n, _ := strconv.Atoi(os.Getenv("C20_RENDEZVOUS")); n > 1 {
		// daemons that come up together: each announces itself and gives its peers up to three seconds to do the same
		// before it goes on to Done() - how slowly a daemon reaches Done() may depend on the other launches
		os.WriteFile(filepath.Join(dir, fmt.Sprintf("started.%d", os.Getpid())), nil, 0o644)
		for i := 0; i < 300; i++ {
			if ms, _ := filepath.Glob(filepath.Join(dir, "started.*")); len(ms) >= n {
				break
			}
			time.Sleep(10 * time.Millisecond)
		}
	}
	if n := os.Getenv("C20_NESTED"); n != "" {
		// a supervisor daemon: before it reports Done() it launches a worker daemon of its own (the worker does not
		// launch anything itself)
		os.Unsetenv("C20_NESTED")
		pid, err := daemon.Launch(n)
		os.WriteFile(filepath.Join(dir, fmt.Sprintf("nested.%d", os.Getpid())), []byte(fmt.Sprintf("%d %v", pid, err)), 0o644)
	}
	if os.Getenv("C20_STOPCONT") != "" {
		// job control, a debugger attaching, a checkpoint tool: the daemon is stopped and continued a few times before it
		// gets to Done() (the harness does that when it sees the request, and says when it is through)
		me := os.Getpid()
		os.WriteFile(filepath.Join(dir, fmt.Sprintf("stopme.%d", me)), nil, 0o644)
		for i := 0; i < 300; i++ {
			if _, err := os.Stat(filepath.Join(dir, fmt.Sprintf("continued.%d", me))); err == nil {
				break
			}
			time.Sleep(10 * time.Millisecond)
		}
	}
	switch os.Getenv("C20_DETACH") {
	case "1":
		syscall.Setsid() // the classic first step of a daemon: a session of its own, no controlling terminal
	case "2":
		syscall.Setpgid(0, 0) // a process group of its own
	}
	switch os.Getenv("C20_CLEANS_ENV") {
	case "1":
		// a daemon that will start helpers from the same binary must not pass the daemon variables on to them
		for _, kv := range os.Environ() {
			if k, _, _ := strings.Cut(kv, "="); strings.HasPrefix(k, "ENV_DAEMON_") {
				os.Unsetenv(k)
			}
		}
	case "2":
		os.Clearenv() // a daemon that wants a minimal, known environment
	case "3":
		// the classic hygiene step: close every descriptor above stderr that the process holds at this point (the Go
		// runtime's own poller descriptors are left alone - closing those is not something a Go program can do)
		for fd := 3; fd < 64; fd++ {
			if l, err := os.Readlink(fmt.Sprintf("/proc/self/fd/%d", fd)); err == nil && !strings.Contains(l, "eventpoll") && !strings.Contains(l, "eventfd") {
				syscall.Close(fd)
			}
		}
	}
	marker := filepath.Join(dir, fmt.Sprintf("marker.%d", os.Getpid()))
	// everything the daemon does before Done(): write the marker (atomically)
	tmp := marker + ".tmp"
	os.WriteFile(tmp, []byte(fmt.Sprintf("%d %s %s", os.Getpid(), token, self)), 0o644)
	os.Rename(tmp, marker)
	switch os.Getenv("C20_DONE_FROM") {
	case "1":
		// readiness is reported from another goroutine (a callback of a server that has started listening)
		reported := make(chan struct{})
		go func() { daemon.Done(); close(reported) }()
		<-reported
	case "2":
		// ... from a goroutine that owns an OS thread of its own, which ends with the goroutine
		reported := make(chan struct{})
		go func() {
			runtime.LockOSThread()
			daemon.Done()
			close(reported)
		}()
		<-reported
	default:
		daemon.Done()
	}
	if os.Getenv("C20_STOP_AFTER_DONE") != "" {
		// ... and is stopped right after Done() (job control again, or a supervisor that freezes what it has started until
		// the rest of the system is up); the harness continues it once Launch has returned
		syscall.Kill(os.Getpid(), syscall.SIGSTOP)
	}
	if bin := os.Getenv("C20_EXEC_AFTER_DONE"); bin != "" {
		// a wrapper daemon: once it has reported, it turns into the real service - same process, another program
		os.WriteFile(filepath.Join(dir, fmt.Sprintf("after-done.%d", os.Getpid())), []byte("x"), 0o644)
		syscall.Exec(bin, []string{"sleep", "45"}, os.Environ())
	}
	if os.Getenv("C20_SHORT_LIVED") != "" {
		return // a one-shot daemon: its work was done before Done(), it reports and leaves
	}
	// life after Done(): the launcher is going away now; an ordinary daemon logs something and carries on
	time.Sleep(10 * time.Millisecond)
	fmt.Fprintln(os.Stderr, "c20 daemon: started")
	fmt.Fprintln(os.Stdout, "c20 daemon: started")
	time.Sleep(5 * time.Millisecond)
	fmt.Fprintln(os.Stderr, "c20 daemon: still here")
	os.WriteFile(filepath.Join(dir, fmt.Sprintf("after-done.%d", os.Getpid())), []byte("x"), 0o644)
	time.Sleep(45 * time.Second) // idle; the harness kills us long before
}

func TestMain(m *testing.M) {
	if os.Getenv("C20_ROLE") == "caller" {
		if os.Getenv("C20_FAIL_FIRST") != "" {
			os.Setenv("C20_CRASH", "1")
			if _, err := daemon.Launch(daemonName); err == nil {
				fmt.Printf("ERR the launch of a daemon that exits before Done() returned nil\n")
				os.Exit(0)
			}
			os.Unsetenv("C20_CRASH")
		}
		if os.Getenv("C20_IGNORE_SIGINT") != "" {
			// the caller runs with SIGINT ignored, as under nohup or as a background job of a non-interactive shell; the
			// processes it starts inherit that
			signal.Ignore(os.Interrupt)
		}
		if os.Getenv("C20_HANGUP") != "" {
			signal.Ignore(syscall.SIGHUP) // what nohup does before it starts the program
		}
		name := daemonName
		if n := os.Getenv("C20_NAME"); n != "" {
			name = n
		}
		pid, err := daemon.Launch(name)
		if err != nil {
			fmt.Printf("ERR %v\n", err)
		} else {
			fmt.Printf("PID %d\n", pid)
		}
		os.Exit(0)
	}
	ev.Rule("cases = (daemon delay before Done() in {0, 1..200 ms}, launcher pause between starting the daemon and waiting for its signal in {0, 1..300 ms} injected through the verif hook, 1..4 concurrent Launch calls, caller = the test process or a short-lived child that exits right after Launch returns); " +
		"the enumerated fault grid is delay x pause over {0, 5, 40, 150} ms x caller kind; real processes, re-executing the test binary in launcher and daemon role like the repository's own test; " +
		"oracle = Launch returns nil and a pid; at that moment the marker the daemon writes before Done() exists and names that pid, the process is alive and its parent is neither the caller nor a live launcher; after the caller child has exited the daemon is still alive; concurrent launches get distinct live pids; " +
		"non-trivial = launcher pause > daemon delay (Done() precedes the launcher's wait) or at least 2 concurrent launches; distinct by case parameters")
	ev.Assume("timings are explored through delays (the hook pause and the daemon's own delay), not by controlling the kernel scheduler")
	code := m.Run()
	ev.Flush()
	os.Exit(code)
}

type kase struct {
	delayMs, pauseMs int
	concurrent       int
	childCaller      bool
	afterFailed      bool // the same caller process first launches a daemon that dies before Done()
	distinctNames    bool // concurrent launches ask for handlers registered under different names
	cleansEnv        int  // the handler changes its own environment before Done(): 1 unsets ENV_DAEMON_*, 2 os.Clearenv()
	relativeArgv0    bool // the caller child is started through a relative path (./prog)
	// bareArgv0: the caller child was found through $PATH - os.Args[0] is the bare program name, the working directory is
	// somewhere else (how a shell starts an installed program); re-executing os.Args[0] looks it up again
	bareArgv0     bool
	nested        bool // the launched daemon is a supervisor: it launches a worker daemon itself before Done()
	shortLived    bool // the handler returns right after Done(): Launch still reports the pid it ran under
	ignoresSigint bool // the caller child runs with SIGINT ignored (nohup, background job)
	// hangup: the caller child runs under nohup - SIGHUP ignored, a process group of its own - and the terminal goes away
	// (SIGHUP to the whole group) while the daemon is still on its way to Done(). Caller, launcher and daemon all inherit
	// the ignored signal: nothing happens, and Launch returns when Done() has been called - not when the hang-up comes
	hangup        bool
	rendezvous    bool // concurrent launches only: every daemon waits (up to 3 s) for its peers to have started before it calls Done()
	oddNames      bool // the handlers asked for are registered under names with blanks at the edges, other letter case, a tab or newline
	stopAfterDone bool // the daemon stops itself (SIGSTOP) right after Done(); it is continued once Launch has returned
	stopCont      bool // the daemon is stopped and continued (SIGSTOP / SIGCONT) a few times before it reaches Done()
	detach        int  // before Done() the handler calls 1: setsid(), 2: setpgid(0, 0)
	execs         bool // after Done() the handler replaces its process image (syscall.Exec) and lives on as another program
	childOnly     bool // the first launch asks for a handler that is registered in the re-executed processes only
	doneFrom      int  // 0: Done() is called by the handler's goroutine; 1: by another goroutine; 2: by a goroutine locked to a thread that ends with it
}

func (k kase) name(i int) string {
	if k.childOnly && i == 0 {
		return childOnlyName
	}
	if k.oddNames {
		return oddNames[(i+k.concurrent)%len(oddNames)]
	}
	if k.distinctNames {
		return daemonNames[i%len(daemonNames)]
	}
	return daemonName
}

func (k kase) String() string {
	c := "test process"
	if k.childCaller {
		c = "short-lived child"
	}
	s := fmt.Sprintf("daemonDelay=%dms launcherPause=%dms concurrentLaunches=%d caller=%s", k.delayMs, k.pauseMs, k.concurrent, c)
	if k.afterFailed {
		s += " afterFailedLaunch"
	}
	if k.distinctNames {
		s += " distinctHandlerNames"
	}
	if k.cleansEnv > 0 {
		s += []string{"", " handlerUnsetsDaemonVariables", " handlerClearsItsEnvironment", " handlerClosesItsDescriptorsAboveStderr"}[k.cleansEnv]
	}
	if k.bareArgv0 {
		s += " callerStartedByBareNameThroughPATH"
	}
	if k.relativeArgv0 {
		s += " callerStartedAsDotSlashProg"
	}
	if k.nested {
		s += " daemonLaunchesAWorkerDaemonItself"
	}
	if k.shortLived {
		s += " handlerReturnsRightAfterDone"
	}
	if k.ignoresSigint {
		s += " callerIgnoresSIGINT"
	}
	if k.hangup {
		s += " callerUnderNohupAndTheGroupGetsSIGHUPBeforeDone"
	}
	if k.childOnly {
		s += " handlerRegisteredInTheReexecutedProcessOnly"
	}
	if k.execs {
		s += " daemonExecsAnotherProgramAfterDone"
	}
	if k.stopCont {
		s += " daemonIsStoppedAndContinuedBeforeDone"
	}
	if k.stopAfterDone {
		s += " daemonIsStoppedRightAfterDone"
	}
	if k.oddNames {
		s += " handlerNamesWithBlanksAndCase"
	}
	if k.detach > 0 {
		s += []string{"", " handlerCallsSetsidBeforeDone", " handlerCallsSetpgidBeforeDone"}[k.detach]
	}
	if k.rendezvous && k.concurrent > 1 {
		s += " daemonsWaitForEachOtherBeforeDone"
	}
	if k.doneFrom > 0 {
		s += []string{"", " doneCalledFromAnotherGoroutine", " doneCalledFromAGoroutineWithItsOwnThread"}[k.doneFrom]
	}
	return s
}

func (k kase) nontrivial() bool { return k.pauseMs > k.delayMs || k.concurrent >= 2 || k.afterFailed }

type procInfo struct {
	state string
	ppid  int
}

func procStat(pid int) (procInfo, error) {
	b, err := os.ReadFile(fmt.Sprintf("/proc/%d/stat", pid))
	if err != nil {
		return procInfo{}, err
	}
	s := string(b)
	i := strings.LastIndexByte(s, ')')
	f := strings.Fields(s[i+1:])
	if len(f) < 2 {
		return procInfo{}, fmt.Errorf("short stat")
	}
	pp, _ := strconv.Atoi(f[1])
	return procInfo{state: f[0], ppid: pp}, nil
}

func alive(pid int) bool {
	st, err := procStat(pid)
	return err == nil && st.state != "Z" && st.state != "X"
}

var envMu sync.Mutex // in-process Launch reads os.Environ(): one case at a time

var selfExe, _ = os.Executable()
var sleepBin, _ = exec.LookPath("sleep")

func runCase(k kase) string {
	if !k.childCaller {
		// only the in-process caller goes through this process' environment
		envMu.Lock()
		defer envMu.Unlock()
	}
	dir, err := os.MkdirTemp("", "c20-")
	if err != nil {
		return "harness: " + err.Error()
	}
	defer os.RemoveAll(dir)
	token := fmt.Sprintf("tok-%d-%d", k.delayMs, k.pauseMs)
	env := map[string]string{"C20_DIR": dir, "C20_TOKEN": token, "C20_DELAY_MS": strconv.Itoa(k.delayMs), "VERIF_DAEMON_LAUNCH_PAUSE_MS": strconv.Itoa(k.pauseMs), "C20_CLEANS_ENV": strconv.Itoa(k.cleansEnv)}
	if k.nested {
		env["C20_NESTED"] = daemonNames[len(daemonNames)-1]
	}
	if k.shortLived {
		env["C20_SHORT_LIVED"] = "1"
	}
	env["C20_DONE_FROM"] = strconv.Itoa(k.doneFrom)
	env["C20_DETACH"] = strconv.Itoa(k.detach)
	if k.stopAfterDone {
		env["C20_STOP_AFTER_DONE"] = "1"
	}
	if k.stopCont {
		env["C20_STOPCONT"] = "1"
		stopDone := make(chan struct{})
		defer close(stopDone)
		go func() {
			handled := map[string]bool{}
			for {
				select {
				case <-stopDone:
					return
				case <-time.After(5 * time.Millisecond):
				}
				reqs, _ := filepath.Glob(filepath.Join(dir, "stopme.*"))
				for _, r := range reqs {
					if handled[r] {
						continue
					}
					handled[r] = true
					pid, err := strconv.Atoi(strings.TrimPrefix(filepath.Base(r), "stopme."))
					if err != nil {
						continue
					}
					for i := 0; i < 3; i++ {
						syscall.Kill(pid, syscall.SIGSTOP)
						time.Sleep(5 * time.Millisecond)
						syscall.Kill(pid, syscall.SIGCONT)
						time.Sleep(5 * time.Millisecond)
					}
					os.WriteFile(filepath.Join(dir, fmt.Sprintf("continued.%d", pid)), nil, 0o644)
				}
			}
		}()
	}
	if k.execs && sleepBin != "" {
		env["C20_EXEC_AFTER_DONE"] = sleepBin
	}
	if k.rendezvous && k.concurrent > 1 {
		env["C20_RENDEZVOUS"] = strconv.Itoa(k.concurrent)
	}
	type result struct {
		pid       int
		err       string
		callerPid int
		returned  time.Time
	}
	results := make([]result, k.concurrent)
	var pids []int
	defer func() {
		for _, p := range pids {
			syscall.Kill(p, syscall.SIGKILL)
		}
		// also anything that left a marker (a daemon whose Launch reported failure)
		ms, _ := filepath.Glob(filepath.Join(dir, "marker.*"))
		for _, m := range ms {
			if p, err := strconv.Atoi(strings.TrimPrefix(filepath.Base(m), "marker.")); err == nil {
				syscall.Kill(p, syscall.SIGKILL)
			}
		}
	}()
	var wg sync.WaitGroup
	budget := time.Duration(k.delayMs+k.pauseMs)*time.Millisecond + 12*time.Second
	if k.childCaller {
		for i := range results {
			wg.Add(1)
			go func(i int) {
				defer wg.Done()
				cmd := exec.Command(selfExe)
				if k.relativeArgv0 {
					// the calling program was started as ./prog from its own directory: os.Args[0] is a relative path
					cmd = exec.Command("./" + filepath.Base(selfExe))
					cmd.Dir = filepath.Dir(selfExe)
				}
				if k.bareArgv0 {
					cmd = exec.Command(selfExe)
					cmd.Args = []string{filepath.Base(selfExe)}
					cmd.Dir = os.TempDir()
				}
				// the child gets this case's variables and nobody else's: cases that call Launch in this very process put
				// theirs into the process environment while they run, and a child started at that moment must not inherit them
				for _, kv := range os.Environ() {
					if name, _, _ := strings.Cut(kv, "="); strings.HasPrefix(name, "C20_") || strings.HasPrefix(name, "VERIF_DAEMON_") || strings.HasPrefix(name, "ENV_DAEMON_") {
						continue
					}
					if k.bareArgv0 && strings.HasPrefix(kv, "PATH=") {
						continue
					}
					cmd.Env = append(cmd.Env, kv)
				}
				if k.bareArgv0 {
					cmd.Env = append(cmd.Env, "PATH="+filepath.Dir(selfExe)+":"+os.Getenv("PATH"))
				}
				for kk, v := range env {
					cmd.Env = append(cmd.Env, kk+"="+v)
				}
				cmd.Env = append(cmd.Env, "C20_ROLE=caller", "C20_NAME="+k.name(i))
				if k.ignoresSigint {
					cmd.Env = append(cmd.Env, "C20_IGNORE_SIGINT=1")
				}
				if k.hangup {
					cmd.Env = append(cmd.Env, "C20_HANGUP=1")
					cmd.SysProcAttr = &syscall.SysProcAttr{Setpgid: true}
				}
				if k.afterFailed {
					cmd.Env = append(cmd.Env, "C20_FAIL_FIRST=1")
				}
				var out bytes.Buffer
				cmd.Stdout = &out
				cmd.Stderr = &out
				if err := cmd.Start(); err != nil {
					results[i].err = "harness: cannot start the caller: " + err.Error()
					return
				}
				results[i].callerPid = cmd.Process.Pid
				if k.hangup {
					// once the daemon exists (the launcher that started it listens for signals by then) and is on its way to
					// Done(), the caller's process group is hung up on
					go func(pgid int) {
						for n := 0; n < 3000; n++ {
							if ms, _ := filepath.Glob(filepath.Join(dir, "onitsway.*")); len(ms) > 0 {
								syscall.Kill(-pgid, syscall.SIGHUP)
								return
							}
							time.Sleep(2 * time.Millisecond)
						}
					}(cmd.Process.Pid)
				}
				err := cmd.Wait()
				results[i].returned = time.Now()
				line := strings.TrimSpace(out.String())
				switch {
				case strings.HasPrefix(line, "PID "):
					results[i].pid, _ = strconv.Atoi(strings.Fields(line)[1])
				case strings.HasPrefix(line, "ERR "):
					results[i].err = "Launch returned an error: " + strings.TrimPrefix(line, "ERR ")
				default:
					results[i].err = fmt.Sprintf("harness: caller printed %q (exit: %v)", line, err)
				}
			}(i)
		}
		if hung := waitOrUnblock(&wg, dir, budget); hung != "" {
			return hung
		}
	} else {
		for kk, v := range env {
			os.Setenv(kk, v)
		}
		defer func() {
			for kk := range env {
				os.Unsetenv(kk)
			}
		}()
		if k.afterFailed {
			os.Setenv("C20_CRASH", "1")
			_, ferr := daemon.Launch(daemonName)
			os.Unsetenv("C20_CRASH")
			if ferr == nil {
				return "the launch of a daemon that exits before ever calling Done() returned nil"
			}
		}
		for i := range results {
			wg.Add(1)
			go func(i int) {
				defer wg.Done()
				pid, err := daemon.Launch(k.name(i))
				results[i].returned = time.Now()
				results[i].callerPid = os.Getpid()
				if err != nil {
					results[i].err = "Launch returned an error: " + err.Error()
				}
				results[i].pid = pid
			}(i)
		}
		if hung := waitOrUnblock(&wg, dir, budget); hung != "" {
			return hung
		}
	}
	seen := map[int]bool{}
	for i, r := range results {
		if r.pid > 0 {
			pids = append(pids, r.pid)
		}
		if strings.HasPrefix(r.err, "harness:") {
			return r.err
		}
		if r.err != "" {
			return fmt.Sprintf("launch #%d: %s", i, r.err)
		}
		if r.pid <= 0 {
			return fmt.Sprintf("launch #%d: Launch returned pid %d", i, r.pid)
		}
		if seen[r.pid] {
			return fmt.Sprintf("two concurrent launches returned the same pid %d", r.pid)
		}
		seen[r.pid] = true
		// the marker is written before Done(): it must be there now and name this pid
		mb, err := os.ReadFile(filepath.Join(dir, fmt.Sprintf("marker.%d", r.pid)))
		if err != nil {
			others, _ := filepath.Glob(filepath.Join(dir, "marker.*"))
			return fmt.Sprintf("launch #%d returned pid %d, but no marker written by that process before Done() exists (markers present: %v)", i, r.pid, others)
		}
		if want := fmt.Sprintf("%d %s %s", r.pid, token, k.name(i)); string(mb) != want {
			return fmt.Sprintf("launch #%d of handler %q: marker of pid %d holds %q, want %q (pid, token, name of the handler that ran)", i, k.name(i), r.pid, mb, want)
		}
		if k.shortLived {
			continue // the process may be gone already: Launch reported it, and what it did before Done() is there
		}
		st, err := procStat(r.pid)
		if err != nil || st.state == "Z" || st.state == "X" {
			return fmt.Sprintf("launch #%d: the daemon (pid %d) is not running after Launch returned (state %q, err %v)", i, r.pid, st.state, err)
		}
		if k.stopAfterDone {
			syscall.Kill(r.pid, syscall.SIGCONT) // it was alive (stopped counts): now it may go on
		}
		if st.ppid == r.callerPid && !k.childCaller {
			return fmt.Sprintf("launch #%d: the daemon (pid %d) is a child of the caller (pid %d)", i, r.pid, r.callerPid)
		}
		if exe, err := os.Readlink(fmt.Sprintf("/proc/%d/exe", st.ppid)); err == nil && exe == selfExe && st.ppid != os.Getpid() {
			// the parent still runs our binary: that can only be the launcher (or a caller child) still alive
			if alive(st.ppid) {
				return fmt.Sprintf("launch #%d: the daemon (pid %d) still has a live parent running the launcher binary (pid %d): the launcher is not gone", i, r.pid, st.ppid)
			}
		}
		if st.ppid == os.Getpid() {
			return fmt.Sprintf("launch #%d: the daemon (pid %d) is a child of the test process", i, r.pid)
		}
		if k.nested {
			// the supervisor's own Launch happened before its Done(): it must have worked like any other
			nb, err := os.ReadFile(filepath.Join(dir, fmt.Sprintf("nested.%d", r.pid)))
			if err != nil {
				return fmt.Sprintf("launch #%d: the daemon (pid %d) was to launch a worker daemon before Done(), but left no result: %v", i, r.pid, err)
			}
			var npid int
			var nerr string
			fmt.Sscanf(string(nb), "%d %s", &npid, &nerr)
			if npid <= 0 || !strings.HasSuffix(strings.TrimSpace(string(nb)), "<nil>") {
				return fmt.Sprintf("launch #%d: Launch(%q) called inside the daemon (pid %d) returned %q, want a pid and <nil>", i, daemonNames[len(daemonNames)-1], r.pid, nb)
			}
			pids = append(pids, npid)
			wb, err := os.ReadFile(filepath.Join(dir, fmt.Sprintf("marker.%d", npid)))
			if want := fmt.Sprintf("%d %s %s", npid, token, daemonNames[len(daemonNames)-1]); err != nil || string(wb) != want {
				return fmt.Sprintf("launch #%d: the worker daemon (pid %d) launched from inside the daemon left marker %q (err %v), want %q", i, npid, wb, err, want)
			}
			if !alive(npid) {
				return fmt.Sprintf("launch #%d: the worker daemon (pid %d) launched from inside the daemon is not running", i, npid)
			}
		}
	}
	if k.shortLived {
		return ""
	}
	// the daemons keep running after the caller has gone: each one gets past its first output after Done()
	for i, r := range results {
		deadline := time.Now().Add(3 * time.Second)
		for {
			if _, err := os.Stat(filepath.Join(dir, fmt.Sprintf("after-done.%d", r.pid))); err == nil {
				break
			}
			if !alive(r.pid) {
				return fmt.Sprintf("launch #%d: the daemon (pid %d) died after Launch returned, before it got past its first output after Done()", i, r.pid)
			}
			if time.Now().After(deadline) {
				return fmt.Sprintf("harness: daemon %d is alive but did not write its after-done marker within 3s", r.pid)
			}
			time.Sleep(2 * time.Millisecond)
		}
	}
	time.Sleep(20 * time.Millisecond)
	for i, r := range results {
		if k.childCaller && alive(r.callerPid) {
			return fmt.Sprintf("harness: caller child %d still alive", r.callerPid)
		}
		if !alive(r.pid) {
			return fmt.Sprintf("launch #%d: the daemon (pid %d) died after the caller exited", i, r.pid)
		}
	}
	return ""
}

// waitOrUnblock waits for the Launch calls of a case. If they have not all returned a generous while after every
// daemon has come back from Done(), the launchers (the daemons' parents) are killed so that the calls return, and
// the hang is reported.
func waitOrUnblock(wg *sync.WaitGroup, dir string, budget time.Duration) (hung string) {
	done := make(chan struct{})
	go func() { wg.Wait(); close(done) }()
	select {
	case <-done:
		return ""
	case <-time.After(budget):
	}
	after, _ := filepath.Glob(filepath.Join(dir, "after-done.*"))
	markers, _ := filepath.Glob(filepath.Join(dir, "marker.*"))
	var desc []string
	for _, m := range markers {
		pid, err := strconv.Atoi(strings.TrimPrefix(filepath.Base(m), "marker."))
		if err != nil {
			continue
		}
		if st, err := procStat(pid); err == nil {
			if exe, _ := os.Readlink(fmt.Sprintf("/proc/%d/exe", st.ppid)); exe == selfExe && st.ppid != os.Getpid() {
				desc = append(desc, fmt.Sprintf("daemon %d is alive, its launcher %d is still waiting", pid, st.ppid))
				syscall.Kill(st.ppid, syscall.SIGKILL)
			}
		}
		syscall.Kill(pid, syscall.SIGKILL)
	}
	select {
	case <-done:
	case <-time.After(20 * time.Second):
		return "harness: Launch calls did not return even after their launchers were killed"
	}
	if len(after) == 0 {
		return fmt.Sprintf("harness: no daemon got past Done() within %s (%d markers)", budget, len(markers))
	}
	return fmt.Sprintf("Launch had not returned %s after it was called although %d daemon(s) had already returned from Done() (%s)", budget, len(after), strings.Join(desc, "; "))
}

var grid = []int{0, 5, 40, 150}

// TestGrid is the enumerated part: delay x pause x caller kind, one launch each.
func TestGrid(t *testing.T) {
	si, sn := rt.Shard()
	idx, n := 0, 0
	// "however slowly the daemon reaches Done()": a few really slow daemons (seconds to a minute) run in the
	// background, through short-lived caller children, while the grid below is visited
	slow := []int{12000}
	if rt.Thorough() {
		slow = []int{12000, 35000, 70000}
	}
	type slowRes struct {
		k   kase
		msg string
	}
	slowCh := make(chan slowRes, len(slow))
	nslow := 0
	for j, d := range slow {
		if j%sn != si {
			continue
		}
		nslow++
		go func(d int) {
			k := kase{delayMs: d, pauseMs: 0, concurrent: 1, childCaller: true}
			slowCh <- slowRes{k, runCase(k)}
		}(d)
	}
	defer func() {
		for i := 0; i < nslow; i++ {
			r := <-slowCh
			if strings.HasPrefix(r.msg, "harness:") {
				rt.Inconclusivef(t, "%s: %s", r.k, r.msg)
			} else if r.msg != "" {
				t.Errorf("%s: %s", r.k, r.msg)
			} else {
				ev.Label("slow_daemon_case")
				ev.Case(true, ev.Hash(r.k.String()), r.k.String)
			}
		}
	}()
	for _, child := range []bool{false, true} {
		for _, d := range grid {
			for _, p := range grid {
				idx++
				if idx%sn != si {
					continue
				}
				if !rt.Thorough() && child && d == 150 && p == 150 {
					continue // keep the quick tier short; covered by the thorough tier
				}
				k := kase{delayMs: d, pauseMs: p, concurrent: 1, childCaller: child, afterFailed: (d+p)%80 == 45, cleansEnv: idx % 4, relativeArgv0: child && idx%4 == 1, shortLived: idx%5 == 2, doneFrom: idx % 3, detach: (idx / 2) % 3}
				if msg := runCase(k); msg != "" {
					if strings.HasPrefix(msg, "harness:") {
						rt.Inconclusivef(t, "%s: %s", k, msg)
					}
					t.Errorf("%s: %s", k, msg)
					return
				}
				n++
				ev.Case(k.nontrivial(), ev.Hash(k.String()), k.String)
			}
		}
	}
	// a hang-up while the daemon is on its way (round twenty-two): the caller under nohup, in a group of its own
	if si == 0 {
		extra := []kase{}
		for _, d := range []int{400, 900, 0} {
			extra = append(extra, kase{delayMs: d, concurrent: 1, childCaller: true, hangup: d > 0, ignoresSigint: d == 900, bareArgv0: d != 400})
		}
		// daemons that are stopped and continued before Done() while the launcher is late, and daemons that stop themselves
		// right after Done(): placed here as well, so that they do not depend on what a seed happens to draw (the
		// self-test of round twenty-three found C20-agent19 and C20-agent20 out of seed 1's reach after new draws were added)
		extra = append(extra,
			kase{delayMs: 0, pauseMs: 300, concurrent: 1, childCaller: true, stopCont: true},
			kase{delayMs: 0, pauseMs: 300, concurrent: 1, stopCont: true},
			kase{delayMs: 5, pauseMs: 0, concurrent: 1, childCaller: true, stopAfterDone: true},
			kase{delayMs: 5, pauseMs: 40, concurrent: 1, stopAfterDone: true},
			kase{delayMs: 0, pauseMs: 150, concurrent: 1, childCaller: true, stopAfterDone: true},
			kase{delayMs: 40, pauseMs: 5, concurrent: 1, stopAfterDone: true, doneFrom: 1},
			kase{delayMs: 0, pauseMs: 0, concurrent: 1, childCaller: true, stopAfterDone: true, relativeArgv0: true},
			kase{delayMs: 150, pauseMs: 0, concurrent: 1, stopAfterDone: true})
		for _, k := range extra {
			if msg := runCase(k); msg != "" {
				if strings.HasPrefix(msg, "harness:") {
					rt.Inconclusivef(t, "%s: %s", k, msg)
				}
				t.Errorf("%s: %s", k, msg)
				return
			}
			n++
			if k.hangup {
				ev.Label("caller_under_nohup_and_SIGHUP_to_its_group_before_Done")
			}
			if k.bareArgv0 {
				ev.Label("caller_started_by_bare_name_through_PATH")
			}
			ev.Case(true, ev.Hash(k.String()), k.String)
		}
	}
	// "however slowly": more than a second on either side (whatever patience a process has with another, it is not
	// part of the statement)
	slowPairs := [][2]int{{0, 1300}, {1300, 0}}
	if rt.Thorough() {
		slowPairs = append(slowPairs, [2]int{0, 3000}, [2]int{2500, 2500}, [2]int{40, 5500})
	}
	for i, dp := range slowPairs {
		idx++
		if idx%sn != si {
			continue
		}
		k := kase{delayMs: dp[0], pauseMs: dp[1], concurrent: 1, childCaller: i%2 == 1}
		if msg := runCase(k); msg != "" {
			if strings.HasPrefix(msg, "harness:") {
				rt.Inconclusivef(t, "%s: %s", k, msg)
			}
			t.Errorf("%s: %s", k, msg)
			return
		}
		n++
		ev.Label("delay_or_pause_over_one_second")
		ev.Case(k.nontrivial(), ev.Hash(k.String()), k.String)
	}
	// several Launch calls at once in one caller process, each for a handler registered under another name
	for _, c := range []int{2, 4, 8} {
		for _, d := range []int{0, 20} {
			idx++
			if idx%sn != si {
				continue
			}
			k := kase{delayMs: d, pauseMs: 0, concurrent: c, distinctNames: true}
			if msg := runCase(k); msg != "" {
				if strings.HasPrefix(msg, "harness:") {
					rt.Inconclusivef(t, "%s: %s", k, msg)
				}
				t.Errorf("%s: %s", k, msg)
				return
			}
			n++
			ev.Label("concurrent_launches_of_different_handlers")
			ev.Case(true, ev.Hash(k.String()), k.String)
		}
	}
	ev.Exhaustive(fmt.Sprintf("the grid daemon delay x launcher pause over %v ms x {caller = test process, short-lived child}, plus 2/4/8 concurrent launches of different handlers from the test process", grid))
	ev.LabelN("grid_cases", int64(n))
}

func TestGenerated(t *testing.T) {
	rt.Check(t, 30, 4000, func(t *rapid.T) {
		k := kase{
			delayMs:     rapid.OneOf(rapid.Just(0), rapid.IntRange(1, 200)).Draw(t, "daemonDelayMs"),
			pauseMs:     rapid.OneOf(rapid.Just(0), rapid.Just(0), rapid.Just(0), rapid.IntRange(1, 300), rapid.IntRange(1, 300), rapid.IntRange(1, 300), rapid.IntRange(1, 300), rapid.IntRange(1, 300), rapid.IntRange(1, 300), rapid.SampledFrom([]int{1100, 1700})).Draw(t, "launcherPauseMs"),
			concurrent:  rapid.SampledFrom([]int{1, 1, 2, 3, 4}).Draw(t, "concurrent"),
			childCaller: rapid.Bool().Draw(t, "childCaller"),
			afterFailed: rapid.IntRange(0, 3).Draw(t, "afterFailedLaunch") == 0,
		}
		k.distinctNames = k.concurrent >= 2 && rapid.IntRange(0, 2).Draw(t, "distinctNames") > 0
		k.cleansEnv = rapid.SampledFrom([]int{0, 0, 0, 1, 2, 3}).Draw(t, "handlerCleansEnv")
		k.relativeArgv0 = k.childCaller && rapid.IntRange(0, 2).Draw(t, "relativeArgv0") == 0
		k.nested = (k.cleansEnv == 0 || k.cleansEnv == 3) && rapid.IntRange(0, 3).Draw(t, "daemonLaunchesAWorker") == 0
		k.shortLived = !k.nested && rapid.IntRange(0, 3).Draw(t, "handlerReturnsAfterDone") == 0
		k.ignoresSigint = k.childCaller && rapid.IntRange(0, 2).Draw(t, "callerIgnoresSIGINT") == 0
		k.doneFrom = rapid.SampledFrom([]int{0, 0, 1, 2}).Draw(t, "doneCalledFrom")
		k.bareArgv0 = k.childCaller && !k.relativeArgv0 && rapid.IntRange(0, 3).Draw(t, "callerFoundThroughPATH") == 0
		if k.childCaller && k.concurrent == 1 && !k.nested && !k.afterFailed && rapid.IntRange(0, 3).Draw(t, "hangup") == 0 {
			k.hangup = true
			if k.delayMs < 400 {
				k.delayMs = 400
			}
		}
		k.rendezvous = k.concurrent > 1 && !k.nested && rapid.IntRange(0, 3).Draw(t, "daemonsWaitForEachOther") == 0
		k.detach = rapid.SampledFrom([]int{0, 0, 0, 1, 2}).Draw(t, "handlerDetachesBeforeDone")
		k.stopCont = !k.nested && rapid.IntRange(0, 5).Draw(t, "daemonStoppedAndContinued") == 0
		// (not for a daemon that has put itself into a process group of its own: a stopped member of a group that becomes
		// orphaned when the intermediate process exits is hung up by the kernel - its own doing, not the launch's)
		k.stopAfterDone = !k.nested && !k.shortLived && k.detach == 0 && rapid.IntRange(0, 5).Draw(t, "daemonStoppedAfterDone") == 0
		k.oddNames = rapid.IntRange(0, 5).Draw(t, "oddHandlerNames") == 0
		k.execs = !k.shortLived && k.doneFrom == 0 && rapid.IntRange(0, 4).Draw(t, "daemonExecsAfterDone") == 0
		k.childOnly = !k.afterFailed && rapid.IntRange(0, 4).Draw(t, "handlerKnownToTheReexecutedProcessOnly") == 0
		msg := runCase(k)
		if strings.HasPrefix(msg, "harness:") {
			ev.Inconclusive(1)
			return
		}
		if msg != "" {
			t.Fatalf("%s: %s", k, msg)
		}
		if k.pauseMs > k.delayMs {
			ev.Label("done_before_launcher_waits")
		}
		if k.concurrent >= 2 {
			ev.Label("concurrent_launches")
		}
		if k.distinctNames {
			ev.Label("concurrent_launches_of_different_handlers")
		}
		if k.cleansEnv > 0 {
			ev.Label("handler_changes_its_own_environment_before_Done")
		}
		if k.relativeArgv0 {
			ev.Label("caller_started_through_a_relative_path")
		}
		if k.nested {
			ev.Label("daemon_launches_a_worker_daemon_before_Done")
		}
		if k.shortLived {
			ev.Label("handler_returns_right_after_Done")
		}
		if k.doneFrom > 0 {
			ev.Label("done_called_from_another_goroutine")
		}
		if k.childOnly {
			ev.Label("handler_registered_in_the_re-executed_process_only")
		}
		if k.execs {
			ev.Label("daemon_execs_another_program_after_Done")
		}
		if k.detach > 0 {
			ev.Label("handler_leaves_its_session_or_process_group_before_Done")
		}
		if k.stopCont {
			ev.Label("daemon_stopped_and_continued_before_Done")
		}
		if k.stopAfterDone {
			ev.Label("daemon_stopped_right_after_Done")
		}
		if k.oddNames {
			ev.Label("handler_names_with_blanks_case_tab_newline")
		}
		if k.rendezvous && k.concurrent > 1 {
			ev.Label("daemons_wait_for_each_other_before_Done")
		}
		if k.ignoresSigint {
			ev.Label("caller_runs_with_SIGINT_ignored")
		}
		if k.hangup {
			ev.Label("caller_under_nohup_and_SIGHUP_to_its_group_before_Done")
		}
		if k.bareArgv0 {
			ev.Label("caller_started_by_bare_name_through_PATH")
		}
		ev.Case(k.nontrivial(), ev.Hash(k.String()), k.String)
	})
}
