// C02 — Logging is atomic per record: one Write, one whole line, never interleaved.
package c02

import (
	"bytes"
	"errors"
	"fmt"
	"io"
	"log/slog"
	"os"
	"regexp"
	"runtime"
	"strings"
	"sync"
	"sync/atomic"
	"syscall"
	"testing"
	"time"

	"github.com/whoisnian/glb/logger"
	"pgregory.net/rapid"

	"verif/harness/internal/ev"
	lm "verif/harness/internal/logmodel"
	"verif/harness/internal/rt"
)

func TestMain(m *testing.M) {
	ev.Rule("cases = scenarios: handler kind x threshold x colour x addSource, 2..8 goroutines each running a generated script of log / derive-then-log steps through the root logger, loggers derived before the run and loggers derived during it, " +
		"record sizes from tiny to ~70 KiB, and a destination whose Write yields/spins a generated number of times; oracle = a monitor inside the destination (in-flight counter must stay 1 for the whole Write, payload stable between entry and exit), " +
		"Write count = number of enabled records, each enabled record id in exactly one Write, no disabled id anywhere, and every payload equal (time masked) to the same record logged alone through a fresh handler with the same chain; run under the race detector; " +
		"non-trivial = Writes of different goroutines interleaved in the global order, a derived logger wrote, and a line exceeded 16 KiB; distinct by scenario hash")
	ev.Assume("interleavings come from the real Go scheduler, amplified by the yielding destination: sampled, not enumerated")
	rt.Main(m)
}

var genOpts = lm.GenOpts{MaxDepth: 2}

// monitor is the destination: it checks that Write calls never overlap and that the payload is stable.
type monitor struct {
	inflight   atomic.Int32
	yields     int
	spins      int
	failEvery  int // every n-th Write reports an error or a short write (0: never)
	panicEvery int // every n-th Write panics after it has taken the payload (0: never); the logging goroutine recovers
	mu         sync.Mutex
	writes     [][]byte
	problems   []string
}

func (m *monitor) problem(format string, args ...any) {
	m.mu.Lock()
	if len(m.problems) < 5 {
		m.problems = append(m.problems, fmt.Sprintf(format, args...))
	}
	m.mu.Unlock()
}

func (m *monitor) Write(p []byte) (int, error) {
	if n := m.inflight.Add(1); n != 1 {
		m.problem("Write entered while %d other Write call(s) were in flight", n-1)
	}
	snap := append([]byte(nil), p...)
	for i := 0; i < m.yields; i++ {
		runtime.Gosched()
	}
	x := 0
	for i := 0; i < m.spins; i++ {
		x += i
	}
	_ = x
	if n := m.inflight.Load(); n != 1 {
		m.problem("%d Write calls in flight in the middle of a Write", n)
	}
	if !bytes.Equal(snap, p) {
		m.problem("the payload changed while Write was running (buffer reused too early): %q -> %q", clip(snap), clip(p))
	}
	m.mu.Lock()
	m.writes = append(m.writes, snap)
	nth := len(m.writes)
	m.mu.Unlock()
	if n := m.inflight.Add(-1); n != 0 {
		m.problem("%d Write calls still in flight when a Write returned", n)
	}
	// a destination may fail or write short: that is the destination's business, the logger must neither retry
	// (a second Write for the same record) nor get confused about later records
	if m.panicEvery > 0 && nth%m.panicEvery == 0 {
		panic("destination: Write panicked (as bytes.Buffer does when it cannot grow)")
	}
	if m.failEvery > 0 && nth%m.failEvery == 0 {
		switch nth % 4 {
		case 0:
			return 0, errors.New("destination: write failed")
		case 1:
			return len(p) / 2, io.ErrShortWrite
		case 2:
			// a connection or pipe with a write deadline: an error whose Timeout() is true - an invitation to try again that
			// the logger must decline
			return 0, fmt.Errorf("write tcp 10.0.0.1:514: %w", os.ErrDeadlineExceeded)
		}
		return 0, &os.PathError{Op: "write", Path: "/dev/stderr", Err: syscall.EAGAIN} // Temporary() and Timeout() true
	}
	return len(p), nil
}

func clip(b []byte) string {
	if len(b) > 300 {
		return string(b[:300]) + "…"
	}
	return string(b)
}

type op struct {
	base   int      // index of the shared logger to start from
	derive *lm.Step // derive from it first (during the run)
	level  slog.Level
	size   int
	attrs  []lm.Node
	form   int
	id     string
	// direct: the record is handed to Handler.Handle with a time of its own (as a slog bridge or a replaying tool
	// does); then even the time field must be byte-for-byte what it is when the record is logged alone
	direct  bool
	instant time.Time
	// poison > 0: the record carries a value that panics while it is rendered (a nil pointer whose MarshalText
	// dereferences it, a buggy Marshaler or Stringer), at top level (1) or inside a group (2). The caller recovers. What
	// becomes of that record is its own business (nothing, or one Write); every other record is written as if alone.
	poison int
	anon   bool // empty message and no attributes: no id in the line
}

type panicky struct{ why string }

func (p panicky) MarshalText() ([]byte, error) { panic("value: MarshalText " + p.why) }
func (p panicky) MarshalJSON() ([]byte, error) { panic("value: MarshalJSON " + p.why) }
func (p panicky) String() string               { panic("value: String " + p.why) }
func (p panicky) Error() string                { panic("value: Error " + p.why) }

type scenario struct {
	kind       int
	threshold  slog.Level
	colorful   bool
	addSource  bool
	shared     [][]lm.Step // chains of the loggers derived before the run (index 0 = root, empty chain)
	scripts    [][]op
	yields     int
	spins      int
	failEvery  int
	panicEvery int
	poisoned   bool
	// destLocks > 0: the destination is safe for concurrent use on its own account and shows it - it embeds its mutex
	// (1 sync.Mutex, 2 sync.RWMutex), so it has Lock and Unlock methods, and takes it inside Write. That lock is the
	// destination's: a logger that borrowed it around its Write would wait for itself (round twenty-two)
	destLocks int
}

type lockingMonitor struct {
	sync.Mutex
	*monitor
}

func (l *lockingMonitor) Write(p []byte) (int, error) {
	l.Lock()
	defer l.Unlock()
	return l.monitor.Write(p)
}

type rwLockingMonitor struct {
	sync.RWMutex
	*monitor
}

func (l *rwLockingMonitor) Write(p []byte) (int, error) {
	l.Lock()
	defer l.Unlock()
	return l.monitor.Write(p)
}

func (sc *scenario) opts() *logger.Options {
	return logger.NewOptions(sc.threshold, sc.colorful, sc.addSource)
}

func (o op) msg() string {
	pad := ""
	if o.size > len(o.id) {
		pad = strings.Repeat("p", o.size-len(o.id))
	}
	return o.id + pad
}

func (o op) chain(sc *scenario) []lm.Step {
	c := append([]lm.Step{}, sc.shared[o.base]...)
	if o.derive != nil {
		c = append(c, *o.derive)
	}
	return c
}

var idRe = regexp.MustCompile(`id-[0-9]+-[0-9]+-`)

func levelName(l slog.Level) string {
	if n, ok := lm.LevelNames[l]; ok {
		return n
	}
	return fmt.Sprintf("Level(%d)", int(l))
}

func genScenario(t *rapid.T) *scenario {
	sc := &scenario{
		kind: rapid.IntRange(0, 2).Draw(t, "handler"),
		// "all thresholds": the five named levels, and any other value a caller may pass to NewOptions (between two
		// named levels, below the lowest, above the highest): a record is written iff its level >= the threshold
		threshold: rapid.SampledFrom([]slog.Level{logger.LevelDebug, logger.LevelDebug, logger.LevelInfo, logger.LevelWarn, logger.LevelError, logger.LevelFatal,
			-8, -3, 1, 3, 5, 6, 7, 9, 11, 13, 15, 17, 1000}).Draw(t, "threshold"),
		colorful:  rapid.IntRange(0, 3).Draw(t, "colorful") == 0,
		addSource: rapid.IntRange(0, 2).Draw(t, "addSource") == 0,
		yields:    rapid.SampledFrom([]int{0, 1, 2, 5, 20}).Draw(t, "yields"),
		spins:     rapid.SampledFrom([]int{0, 0, 1000, 100000}).Draw(t, "spins"),
		failEvery: rapid.SampledFrom([]int{0, 0, 0, 1, 3, 7}).Draw(t, "destinationFailsEvery"),
		// a destination whose Write panics now and then; the caller recovers (as net/http, Relay and worker pools do)
		// and carries on logging: the records that follow are written like any other
		panicEvery: rapid.SampledFrom([]int{0, 0, 0, 0, 2, 5}).Draw(t, "destinationPanicsEvery"),
	}
	sc.shared = [][]lm.Step{nil}
	for i, n := 0, rapid.IntRange(0, 5).Draw(t, "nshared"); i < n; i++ {
		parent := rapid.IntRange(0, len(sc.shared)-1).Draw(t, "sharedParent")
		c := append([]lm.Step{}, sc.shared[parent]...)
		// one to three derivation steps at once: nested groups and attributes below groups are what gives every
		// logger a line prefix of its own, built in scratch memory that the loggers share
		for k, m := 0, rapid.SampledFrom([]int{1, 1, 2, 3}).Draw(t, "sharedSteps"); k < m; k++ {
			c = append(c, lm.GenStep(genOpts).Draw(t, "sharedStep"))
		}
		sc.shared = append(sc.shared, c)
	}
	base := lm.GenInstant().Draw(t, "baseInstant")
	zones := []*time.Location{base.Location(), time.FixedZone("", 8*3600)}
	g := rapid.IntRange(2, 8).Draw(t, "goroutines")
	poisoned := rapid.IntRange(0, 3).Draw(t, "someValuesPanicWhenRendered") == 0
	sc.poisoned = poisoned
	for gi := 0; gi < g; gi++ {
		n := rapid.IntRange(5, 30).Draw(t, "steps")
		var script []op
		for k := 0; k < n; k++ {
			o := op{
				base:  rapid.IntRange(0, len(sc.shared)-1).Draw(t, "base"),
				level: rapid.SampledFrom(lm.Levels).Draw(t, "level"),
				size:  rapid.SampledFrom([]int{0, 0, 0, 10, 100, 1000, 1000, 17000, 70000}).Draw(t, "size"),
				form:  rapid.IntRange(0, lm.NumForms-1).Draw(t, "form"),
				id:    fmt.Sprintf("id-%d-%d-", gi, k),
			}
			if rapid.IntRange(0, 3).Draw(t, "hasAttrs") == 0 {
				o.attrs = lm.GenNodes(genOpts, 2).Draw(t, "attrs")
			}
			if rapid.IntRange(0, 3).Draw(t, "derive") == 0 {
				st := lm.GenStep(genOpts).Draw(t, "step")
				o.derive = &st
			}
			if rapid.IntRange(0, 3).Draw(t, "direct") == 0 {
				// instants of neighbouring seconds, minutes and zones, so that concurrent records differ in their stamps
				o.direct = true
				shift := rapid.SampledFrom([]time.Duration{0, 0, time.Second, -time.Second, 999 * time.Millisecond, time.Minute, time.Hour, 24 * time.Hour}).Draw(t, "shift")
				o.instant = base.Add(shift).In(zones[rapid.IntRange(0, 1).Draw(t, "zone")])
			}
			if o.poison == 0 && rapid.IntRange(0, 11).Draw(t, "bare") == 0 {
				// a record that says nothing: empty message, no attributes (a heartbeat, a separator line). It carries no
				// id; it is recognised by being byte-for-byte the line it gives when logged alone
				o.id, o.size, o.attrs, o.anon = "", 0, nil, true
			}
			if !o.anon && poisoned && rapid.IntRange(0, 7).Draw(t, "poison") == 0 {
				o.poison = rapid.IntRange(1, 2).Draw(t, "poisonWhere")
				if !o.direct {
					o.direct, o.instant = true, base
				}
			}
			script = append(script, o)
		}
		sc.scripts = append(sc.scripts, script)
	}
	sc.destLocks = rapid.SampledFrom([]int{0, 0, 0, 0, 1, 2}).Draw(t, "destinationEmbedsItsLock")
	return sc
}

func (sc *scenario) render() string {
	total := 0
	for _, s := range sc.scripts {
		total += len(s)
	}
	return fmt.Sprintf("%s threshold=%s colorful=%v addSource=%v shared=%d goroutines=%d records=%d sink(yields=%d spins=%d)", lm.HandlerNames[sc.kind], levelName(sc.threshold), sc.colorful, sc.addSource,
		len(sc.shared)-1, len(sc.scripts), total, sc.yields, sc.spins)
}

// handle passes a record with a time of its own to a handler, the way Logger does it (threshold first).
func handle(h logger.Handler, o op) {
	if !h.Enabled(o.level) {
		return
	}
	pc, _, _ := lm.CallerPC()
	r := slog.NewRecord(o.instant, o.level, o.msg(), pc)
	r.AddAttrs(lm.Attrs(o.attrs)...)
	switch o.poison {
	case 1:
		r.AddAttrs(slog.Any("bad", panicky{"at top level"}))
	case 2:
		r.AddAttrs(slog.Group("req", slog.String("before", "x"), slog.Group("at", slog.Any("bad", &panicky{"inside a group"}))))
	}
	_ = h.Handle(lm.CtxFor(o.form, o.msg()), r)
}

// alone logs one record through a fresh handler with the same chain into a private buffer.
func (sc *scenario) alone(o op) []byte {
	sink := &lm.Sink{}
	if o.direct {
		handle(lm.DeriveHandler(lm.NewHandler(sc.kind, sink, sc.opts()), o.chain(sc)), o)
		if len(sink.Writes) != 1 {
			return nil
		}
		return sink.Writes[0] // its own time: nothing to mask
	}
	l := lm.Derive(logger.New(lm.NewHandler(sc.kind, sink, sc.opts())), o.chain(sc))
	lm.Emit(l, o.form, o.level, o.msg(), o.attrs)
	if len(sink.Writes) != 1 {
		return nil
	}
	return lm.MaskTime(sc.kind, sink.Writes[0])
}

type outcome struct {
	interleaved  bool
	derivedWrote bool
	bigLine      bool
	ownTime      bool
	writes       int

	poisonWritten int
	anon          int
}

func runScenario(sc *scenario) (string, outcome) {
	var oc outcome
	mon := &monitor{yields: sc.yields, spins: sc.spins, failEvery: sc.failEvery, panicEvery: sc.panicEvery}
	var dest io.Writer = mon
	switch sc.destLocks {
	case 1:
		dest = &lockingMonitor{monitor: mon}
	case 2:
		dest = &rwLockingMonitor{monitor: mon}
	}
	rootH := lm.NewHandler(sc.kind, dest, sc.opts())
	root := logger.New(rootH)
	shared := make([]*logger.Logger, len(sc.shared))
	sharedH := make([]logger.Handler, len(sc.shared)) // the same derivations as handlers, for records with a time of their own
	for i, c := range sc.shared {
		shared[i] = lm.Derive(root, c)
		sharedH[i] = lm.DeriveHandler(rootH, c)
	}
	var wg sync.WaitGroup
	start := make(chan struct{})
	for _, script := range sc.scripts {
		wg.Add(1)
		go func(script []op) {
			defer wg.Done()
			<-start
			for _, o := range script {
				func() {
					defer func() { _ = recover() }() // a panic out of the destination's Write; the goroutine carries on
					if o.direct {
						h := sharedH[o.base]
						if o.derive != nil {
							h = lm.DeriveHandler(h, []lm.Step{*o.derive})
						}
						handle(h, o)
						return
					}
					l := shared[o.base]
					if o.derive != nil {
						l = lm.Derive(l, []lm.Step{*o.derive})
					}
					lm.Emit(l, o.form, o.level, o.msg(), o.attrs)
				}()
			}
		}(script)
	}
	close(start)
	wg.Wait()
	if len(mon.problems) > 0 {
		return strings.Join(mon.problems, "; "), oc
	}
	byID := map[string]op{}
	enabled, enabledPoisoned := 0, 0
	anonLines := map[string]int{} // expected lines of the enabled records without an id, with multiplicity
	for _, s := range sc.scripts {
		for _, o := range s {
			if o.anon {
				if o.level >= sc.threshold {
					enabled++
					anonLines[string(sc.alone(o))]++
					oc.anon++
				}
				continue
			}
			byID[o.id] = o
			if o.level >= sc.threshold {
				if o.poison > 0 {
					enabledPoisoned++
				} else {
					enabled++
				}
			}
		}
	}
	oc.writes = len(mon.writes)
	if len(mon.writes) < enabled || len(mon.writes) > enabled+enabledPoisoned {
		return fmt.Sprintf("%d Write calls for %d records at or above the threshold (and %d more whose rendering panics)", len(mon.writes), enabled, enabledPoisoned), oc
	}
	seen := map[string]bool{}
	lastG := ""
	switches := 0
	for _, w := range mon.writes {
		ids := idRe.FindAllString(string(w), -1)
		if len(ids) == 0 && len(anonLines) > 0 {
			// one of the records that carry no id: as written (own time) or with the time masked
			if k := string(w); anonLines[k] > 0 {
				anonLines[k]--
				continue
			}
			if k := string(lm.MaskTime(sc.kind, w)); anonLines[k] > 0 {
				anonLines[k]--
				continue
			}
			return fmt.Sprintf("a Write payload carries no record id and is none of the lines that the records without message and attributes give when logged alone: %q", clip(w)), oc
		}
		if len(ids) != 1 {
			return fmt.Sprintf("a Write payload carries %d record ids %v, want exactly one: %q", len(ids), ids, clip(w)), oc
		}
		id := ids[0]
		o, ok := byID[id]
		if !ok {
			return fmt.Sprintf("unknown record id %s in %q", id, clip(w)), oc
		}
		if o.level < sc.threshold {
			return fmt.Sprintf("record %s is below the threshold (%s < %s) but was written", id, lm.LevelNames[o.level], levelName(sc.threshold)), oc
		}
		if seen[id] {
			return fmt.Sprintf("record %s was written twice", id), oc
		}
		seen[id] = true
		if o.poison > 0 {
			oc.poisonWritten++
			continue // a handler that contains the panic and writes something for this record: not judged
		}
		want := sc.alone(o)
		got := w
		if !o.direct {
			got = lm.MaskTime(sc.kind, w)
		} else {
			oc.ownTime = true
		}
		if !bytes.Equal(got, want) {
			return fmt.Sprintf("record %s written concurrently differs from the same record logged alone\n  concurrent: %q\n  alone:      %q", id, clip(got), clip(want)), oc
		}
		g := id[:strings.Index(id[3:], "-")+3]
		if lastG != "" && g != lastG {
			switches++
		}
		lastG = g
		if o.derive != nil || o.base > 0 {
			oc.derivedWrote = true
		}
		if len(w) > 16<<10 {
			oc.bigLine = true
		}
	}
	for line, n := range anonLines {
		if n > 0 {
			return fmt.Sprintf("%d record(s) with an empty message and no attributes at an enabled level were never written (logged alone each gives %q)", n, clip([]byte(line))), oc
		}
	}
	for id, o := range byID {
		if o.poison == 0 && o.level >= sc.threshold && !seen[id] {
			return fmt.Sprintf("record %s was never written", id), oc
		}
	}
	oc.interleaved = switches >= len(sc.scripts) // more switches than a purely sequential schedule would show
	return "", oc
}

func TestScenarios(t *testing.T) {
	rt.Check(t, 250, 8000, func(t *rapid.T) {
		sc := genScenario(t)
		msg, oc := runScenario(sc)
		if msg != "" {
			t.Fatalf("%s\nscenario: %s", msg, sc.render())
		}
		ev.Label("handler:" + lm.HandlerNames[sc.kind])
		if sc.destLocks > 0 {
			ev.Label("destination_embeds_its_own_lock_and_takes_it_in_Write")
		}
		if oc.interleaved {
			ev.Label("observed:goroutines_interleaved")
		}
		if oc.bigLine {
			ev.Label("observed:line_over_16KiB")
		}
		if oc.derivedWrote {
			ev.Label("observed:derived_logger_wrote")
		}
		if oc.ownTime {
			ev.Label("observed:records_with_a_time_of_their_own_(Handler.Handle)")
		}
		if oc.anon > 0 {
			ev.Label("records_with_empty_message_and_no_attributes")
		}
		if sc.poisoned {
			ev.Label("some_values_panic_while_rendered_(caller_recovers)")
		}
		ev.LabelN("records_written", int64(oc.writes))
		ev.Case(oc.interleaved && oc.derivedWrote && oc.bigLine, ev.Hash(sc.render(), fmt.Sprint(oc.writes)), sc.render)
	})
}

// TestParallelHammer: many goroutines, each in a tight loop, hand small records with times of their own - neighbouring
// seconds, minutes and zones - to the root handler and to handlers derived from it, all at once. Windows of a few
// nanoseconds in per-record shared state (a stamp cache, a pooled buffer) occur once per record, so the number of
// records, not the size of a scenario, is what reaches them. Every written line must be byte-for-byte one of the
// lines the same goroutine's records give when logged alone, and each of them must appear as often as it was logged.
func TestParallelHammer(t *testing.T) {
	rt.Check(t, 6, 1500, func(t *rapid.T) {
		for kind := 0; kind < 3; kind++ { // every case visits the three handlers
			opts := logger.NewOptions(logger.LevelDebug, false, rapid.IntRange(0, 3).Draw(t, "addSource") == 0)
			base := lm.GenInstant().Draw(t, "baseInstant")
			var instants []time.Time
			for _, sh := range []time.Duration{0, time.Second, -time.Second, 999 * time.Millisecond, time.Minute} {
				instants = append(instants, base.Add(sh))
			}
			instants = append(instants, base.In(time.FixedZone("", 8*3600)), base.Add(time.Second).In(time.FixedZone("", -3600)))
			g := rapid.IntRange(3, 12).Draw(t, "goroutines")
			per := rapid.SampledFrom([]int{1000, 4000}).Draw(t, "recordsPerGoroutine")
			mon := &monitor{}
			rootH := lm.NewHandler(kind, mon, opts)
			type worker struct {
				chain []lm.Step
				h     logger.Handler
				want  map[string]int // expected line -> how often
				order []int
			}
			ws := make([]*worker, g)
			for i := range ws {
				w := &worker{want: map[string]int{}}
				if rapid.Bool().Draw(t, "derived") {
					w.chain = []lm.Step{lm.GenStep(genOpts).Draw(t, "step")}
				}
				w.h = lm.DeriveHandler(rootH, w.chain)
				w.order = rapid.SliceOfN(rapid.IntRange(0, len(instants)-1), 2, 7).Draw(t, "instantOrder")
				ws[i] = w
			}
			mkop := func(i, k int) op {
				w := ws[i]
				return op{level: logger.LevelInfo, id: fmt.Sprintf("id-%d-0-", i), direct: true, instant: instants[w.order[k%len(w.order)]]}
			}
			for i, w := range ws {
				lineOf := map[int]string{} // position in the goroutine's cycle of instants -> the line when logged alone
				for k := 0; k < len(w.order); k++ {
					sink := &lm.Sink{}
					handle(lm.DeriveHandler(lm.NewHandler(kind, sink, opts), w.chain), mkop(i, k))
					if len(sink.Writes) != 1 {
						t.Fatalf("logged alone, a record caused %d Write calls", len(sink.Writes))
					}
					lineOf[k] = string(sink.Writes[0])
				}
				for k := 0; k < per; k++ {
					w.want[lineOf[k%len(w.order)]]++ // different instants may give the same line (Nano prints whole seconds)
				}
			}
			var wg sync.WaitGroup
			start := make(chan struct{})
			for i := range ws {
				wg.Add(1)
				go func(i int) {
					defer wg.Done()
					<-start
					for k := 0; k < per; k++ {
						handle(ws[i].h, mkop(i, k))
					}
				}(i)
			}
			close(start)
			wg.Wait()
			if len(mon.problems) > 0 {
				t.Fatalf("%s", strings.Join(mon.problems, "; "))
			}
			if len(mon.writes) != g*per {
				t.Fatalf("%d Write calls for %d records", len(mon.writes), g*per)
			}
			got := make([]map[string]int, g)
			for i := range got {
				got[i] = map[string]int{}
			}
			for _, w := range mon.writes {
				ids := idRe.FindAllString(string(w), -1)
				if len(ids) != 1 {
					t.Fatalf("a Write payload carries %d record ids, want exactly one: %q", len(ids), clip(w))
				}
				var gi int
				fmt.Sscanf(ids[0], "id-%d-", &gi)
				if _, ok := ws[gi].want[string(w)]; !ok {
					var alone []string
					for l := range ws[gi].want {
						alone = append(alone, l)
					}
					t.Fatalf("%s handler, %d goroutines: goroutine %d wrote a line that none of its records gives when logged alone\n  written: %q\n  alone:   %q", lm.HandlerNames[kind], g, gi, clip(w), alone)
				}
				got[gi][string(w)]++
			}
			for i, w := range ws {
				for l, n := range w.want {
					if got[i][l] != n {
						t.Fatalf("%s handler: goroutine %d logged %q %d times, it was written %d times", lm.HandlerNames[kind], i, clip([]byte(l)), n, got[i][l])
					}
				}
			}
			ev.Label("hammer:" + lm.HandlerNames[kind])
			ev.LabelN("hammer_records", int64(g*per))
			ev.Case(g >= 2, ev.Hash("hammer", fmt.Sprint(kind, g, per, base.UnixNano())), func() string {
				return fmt.Sprintf("hammer: %s handler, %d goroutines x %d records with %d instants around %s", lm.HandlerNames[kind], g, per, len(instants), base.Format(time.RFC3339Nano))
			})
		}
	})
}

func TestRegression(t *testing.T) {
	// a fixed heavy scenario per handler: many goroutines, big and small lines, derived loggers
	for kind := 0; kind < 3; kind++ {
		sc := &scenario{kind: kind, threshold: logger.LevelInfo, addSource: kind == 1, yields: 3,
			shared: [][]lm.Step{nil, {{With: []lm.Node{{Key: "svc", Kind: lm.KString, S: "api"}}}}, {{Group: "g"}, {With: []lm.Node{{Key: "n", Kind: lm.KInt64, I: 1}}}}}}
		for g := 0; g < 8; g++ {
			var script []op
			for k := 0; k < 25; k++ {
				o := op{base: (g + k) % 3, level: lm.Levels[(g+k)%5], size: []int{0, 50, 17000, 1000, 70000}[(g*3+k)%5], form: k % lm.NumForms, id: fmt.Sprintf("id-%d-%d-", g, k)}
				if k%4 == 1 {
					o.derive = &lm.Step{With: []lm.Node{{Key: "k", Kind: lm.KString, S: strings.Repeat("v", k)}}}
				}
				script = append(script, o)
			}
			sc.scripts = append(sc.scripts, script)
		}
		msg, oc := runScenario(sc)
		if msg != "" {
			t.Errorf("%s\nscenario: %s", msg, sc.render())
		}
		ev.Case(oc.interleaved && oc.derivedWrote && oc.bigLine, ev.Hash("reg", sc.render()), sc.render)
	}
}

// ---- values that log while they are rendered ----

// chatty is a value whose rendering - through whichever interface the handler consults - logs a record of its own
// through a logger of the same tree (a lazy lookup that reports a cache miss, an error type that logs when it is
// formatted), directly or on a helper goroutine it waits for.
type chatty struct {
	via    *logger.Logger
	helper bool
	n      *atomic.Int32
}

func (c chatty) say(how string) {
	c.n.Add(1)
	f := func() { c.via.Warn("id-inner- logged while a value of another record is rendered", "how", how) }
	if c.helper {
		done := make(chan struct{})
		go func() { defer close(done); f() }()
		<-done
		return
	}
	f()
}

func (c chatty) LogValue() slog.Value { c.say("LogValue"); return slog.StringValue("resolved") }

type chattyText struct{ chatty }

func (c chattyText) MarshalText() ([]byte, error) { c.say("MarshalText"); return []byte("text"), nil }
func (c chattyText) MarshalJSON() ([]byte, error) { c.say("MarshalJSON"); return []byte(`"json"`), nil }
func (c chattyText) String() string               { c.say("String"); return "string" }

type chattyErr struct{ chatty }

func (c chattyErr) Error() string { c.say("Error"); return "error text" }

// TestValueThatLogs: the outer record and the record(s) its value logs are both records at an enabled level: each
// causes exactly one Write, the inner ones first, and the outer line is what it is when the value keeps quiet.
func TestValueThatLogs(t *testing.T) {
	rt.Check(t, 150, 20000, func(t *rapid.T) {
		kind := rapid.IntRange(0, 2).Draw(t, "handler")
		mon := &monitor{}
		opts := logger.NewOptions(logger.LevelDebug, false, false)
		root := logger.New(lm.NewHandler(kind, mon, opts))
		pick := func(label string) *logger.Logger {
			switch rapid.IntRange(0, 2).Draw(t, label) {
			case 0:
				return root
			case 1:
				return root.With("side", label)
			}
			return root.WithGroup("g"+label).With("k", 1)
		}
		outer, inner := pick("outerLogger"), pick("innerLogger")
		var calls atomic.Int32
		base := chatty{via: inner, helper: rapid.Bool().Draw(t, "onAHelperGoroutine"), n: &calls}
		shape := rapid.IntRange(0, 3).Draw(t, "valueShape")
		var val any
		switch shape {
		case 0:
			val = base
		case 1:
			val = chattyText{base}
		case 2:
			val = chattyErr{base}
		default:
			val = slog.GroupValue(slog.Any("deep", base))
		}
		desc := fmt.Sprintf("%s: value shape %d (0 LogValuer, 1 marshaler/stringer, 2 error, 3 LogValuer inside a group), helper goroutine: %v", lm.HandlerNames[kind], shape, base.helper)
		rt.Describe(desc)
		outer.Info("id-outer- the record whose value logs", "quiet", 1, "loud", val, "after", true)
		if len(mon.problems) > 0 {
			t.Fatalf("%s\n%s", strings.Join(mon.problems, "; "), desc)
		}
		n := int(calls.Load())
		if len(mon.writes) != n+1 {
			t.Fatalf("%s: the value logged %d record(s) while it was rendered, plus the outer record: %d Write calls, want %d", desc, n, len(mon.writes), n+1)
		}
		for i, w := range mon.writes {
			want := "id-inner-"
			if i == n {
				want = "id-outer-"
			}
			if ids := idRe2.FindAllString(string(w), -1); len(ids) != 1 || ids[0] != want {
				t.Fatalf("%s: Write #%d carries the ids %v, want exactly %s: %q", desc, i, ids, want, clip(w))
			}
		}
		ev.Label("value_logs_while_it_is_rendered:" + lm.HandlerNames[kind])
		ev.Case(n > 0, ev.Hash("chatty", desc), func() string { return desc })
	})
}

var idRe2 = regexp.MustCompile(`id-(inner|outer)-`)
