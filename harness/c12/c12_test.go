// C12 — IPv4Filter is safe and consistent under concurrent updates and lookups.
package c12

import (
	"encoding/binary"
	"errors"
	"fmt"
	"net"
	"strings"
	"sync"
	"sync/atomic"
	"testing"

	"github.com/whoisnian/glb/util/netutil"
	"pgregory.net/rapid"

	"verif/harness/internal/ev"
	"verif/harness/internal/rt"
)

func TestMain(m *testing.M) {
	ev.Rule("cases = scenarios: stable ranges added before the run and never removed, W writers each owning disjoint ranges with generated add/remove scripts (in half of the scenarios one writer also toggles 0.0.0.0/0), " +
		"a preload sized so that the 256-entry list-to-map switch happens while R readers are running; readers assert in-line that an address inside a stable range is contained and that an address no script ever covers is not " +
		"(the latter only while 0.0.0.0/0 cannot be set); after all goroutines joined the filter must equal the set-of-prefixes model applied to each writer's script; run under the race detector; " +
		"non-trivial = the switch happened while readers were active (reader iterations observed both before and after the crossing); distinct by scenario hash")
	ev.Assume("interleavings come from the real Go scheduler (GOMAXPROCS swept in the thorough tier): sampled, not enumerated; the migration window is short, so a torn migration is caught with high probability per run, not certainly")
	rt.Main(m)
}

type prefix struct {
	net  uint32
	ones int
}

func mask(ones int) uint32 {
	if ones == 0 {
		return 0
	}
	return ^uint32(0) << (32 - ones)
}

func ipnet(p prefix) *net.IPNet {
	b := make(net.IP, 4)
	binary.BigEndian.PutUint32(b, p.net)
	return &net.IPNet{IP: b, Mask: net.CIDRMask(p.ones, 32)}
}

func ip(v uint32, sixteen bool) net.IP {
	b := make(net.IP, 4)
	binary.BigEndian.PutUint32(b, v)
	if sixteen {
		return b.To16()
	}
	return b
}

type wop struct {
	add bool
	p   prefix
	idx int // index into the writer's own prefix list
	// wide: the range is spelled with a 16-byte IPv4 address and a 4-byte mask. The filter may reject that spelling with
	// ErrInvalidIPv4CIDR (then the call changes nothing) or accept it (then it is the range it spells).
	wide     bool
	rejected bool // set by the writer when the filter rejected this call
}

// arguments that are not IPv4 networks: rejected with the sentinel, and a rejected call changes nothing
var junkNets = []*net.IPNet{
	{IP: net.ParseIP("::"), Mask: net.CIDRMask(0, 128)},
	{IP: net.IP{10, 0, 0, 0}, Mask: net.IPMask{255, 0, 255, 0}},
	{IP: net.ParseIP("2001:db8::"), Mask: net.CIDRMask(32, 128)},
	{IP: net.IP{10, 0, 0, 0}, Mask: nil},
	{IP: net.IP{10, 0, 0}, Mask: net.CIDRMask(8, 32)},
	{IP: net.IP{0, 0, 0, 0}, Mask: net.IPMask{}},
}

var junkCalls atomic.Int64

func ipnetWide(p prefix) *net.IPNet {
	return &net.IPNet{IP: net.IPv4(byte(p.net>>24), byte(p.net>>16), byte(p.net>>8), byte(p.net)), Mask: net.CIDRMask(p.ones, 32)}
}

// hot is the per-prefix bookkeeping that lets a reader know whether a range was stable during its lookup:
// seq is odd while the owning writer is inside Add/Remove for it, present is what the last completed call left.
type hot struct {
	p       prefix
	seq     atomic.Uint64
	present atomic.Bool
}

type scenario struct {
	stable      []prefix
	filler      []prefix // preloaded and never touched again, outside the probed regions
	scripts     [][]wop
	owned       [][]prefix // per writer: its pairwise disjoint ranges
	toggle      bool       // writer 0 also toggles 0.0.0.0/0
	readers     int
	sixteen     bool
	zeroNetLast bool // one stable range begins at 0.0.0.0 and is loaded last
	twins       int
}

func genScenario(t *rapid.T) *scenario {
	sc := &scenario{readers: rapid.IntRange(1, 4).Draw(t, "readers"), toggle: rapid.Bool().Draw(t, "toggleMatchAll"), sixteen: rapid.Bool().Draw(t, "sixteenByteProbes")}
	nstable := rapid.IntRange(1, 40).Draw(t, "nstable")
	for i := 0; i < nstable; i++ {
		ones := rapid.SampledFrom([]int{16, 20, 24, 28, 32}).Draw(t, "stableOnes")
		if rapid.IntRange(0, 2).Draw(t, "stableTwin") == 0 {
			// two ranges that begin at the same address, one inside the other (10.i.0.0/16 and 10.i.0.0/24), both present
			// for the whole run: whichever is added second is a range of its own, not a repetition of the first
			inner := prefix{10<<24 | uint32(i)<<16, rapid.SampledFrom([]int{17, 24, 28, 32}).Draw(t, "twinOnes")}
			outer := prefix{10<<24 | uint32(i)<<16, 16}
			if rapid.Bool().Draw(t, "innerFirst") {
				sc.stable = append(sc.stable, inner, outer)
			} else {
				sc.stable = append(sc.stable, outer, inner)
			}
			sc.twins++
			continue
		}
		sc.stable = append(sc.stable, prefix{(10<<24 | uint32(i)<<16 | uint32(rapid.IntRange(0, 65535).Draw(t, "stableLow"))) & mask(ones), ones})
	}
	// in a third of the scenarios one more stable range begins at 0.0.0.0 (0.0.0.0/8, /12, /16: a network address of
	// zero is an address like any other) and is the last entry loaded before the writers start; in half of those the
	// list is left well short of its capacity, so that the filter stays in list mode for a while (round twenty-three)
	if rapid.IntRange(0, 2).Draw(t, "stableRangeAtZero") == 0 {
		sc.stable = append(sc.stable, prefix{0, rapid.SampledFrom([]int{8, 12, 16}).Draw(t, "zeroOnes")})
		sc.zeroNetLast = true
	}
	nstable = len(sc.stable)
	// preload so that the list is close to overflowing when the writers start
	w := rapid.IntRange(1, 4).Draw(t, "writers")
	// often exactly at the capacity of the list (256 entries), one below or one above it
	total := rapid.OneOf(rapid.IntRange(200, 262), rapid.SampledFrom([]int{254, 255, 256, 256, 256, 257})).Draw(t, "preloadTotal")
	if sc.zeroNetLast && rapid.Bool().Draw(t, "roomInTheList") {
		total = rapid.IntRange(nstable, 120).Draw(t, "smallPreload")
	}
	for i := nstable; i < total; i++ {
		sc.filler = append(sc.filler, prefix{40<<24 | uint32(i)<<8, 24})
	}
	for wi := 0; wi < w; wi++ {
		// mostly short scripts, now and then hundreds of updates per writer (thousands of calls on one filter)
		n := rapid.OneOf(rapid.IntRange(10, 80), rapid.IntRange(10, 80), rapid.IntRange(10, 80), rapid.SampledFrom([]int{400, 2500})).Draw(t, "scriptLen")
		// every writer owns pairwise disjoint ranges: its i-th prefix lives inside (20+wi).i.0.0/16
		np := rapid.IntRange(2, 40).Draw(t, "nprefixes")
		mine := make([]prefix, np)
		for i := range mine {
			ones := rapid.SampledFrom([]int{16, 17, 20, 24, 28, 31, 32}).Draw(t, "ones")
			mine[i] = prefix{(uint32(20+wi)<<24 | uint32(i)<<16 | uint32(rapid.IntRange(0, 65535).Draw(t, "low"))) & mask(ones), ones}
		}
		sc.owned = append(sc.owned, mine)
		nhot := rapid.IntRange(1, 3).Draw(t, "nhot") // a few ranges are toggled over and over
		var script []wop
		state := make([]bool, np)
		if rapid.IntRange(0, 2).Draw(t, "startsWithRemoveOfAbsent") == 0 {
			// the very first thing this writer does is remove a range that was never there
			script = append(script, wop{add: false, p: mine[np-1], idx: np - 1})
		}
		for k := 0; k < n; k++ {
			i := rapid.IntRange(0, np-1).Draw(t, "which")
			if rapid.IntRange(0, 2).Draw(t, "hot") > 0 {
				i = i % nhot
			}
			add := !state[i]
			if rapid.IntRange(0, 7).Draw(t, "redundant") == 0 {
				add = !add // a redundant add of a present range or remove of an absent one
			}
			state[i] = add
			script = append(script, wop{add: add, p: mine[i], idx: i, wide: rapid.IntRange(0, 9).Draw(t, "sixteenByteSpelling") == 0})
		}
		sc.scripts = append(sc.scripts, script)
	}
	return sc
}

func (sc *scenario) render() string {
	n := 0
	for _, s := range sc.scripts {
		n += len(s)
	}
	return fmt.Sprintf("stable=%d preload=%d writers=%d ops=%d readers=%d toggle0/0=%v sixteenByte=%v", len(sc.stable), len(sc.stable)+len(sc.filler), len(sc.scripts), n, sc.readers, sc.toggle, sc.sixteen)
}

type outcome struct {
	switchedDuringReads bool
	readerIters         int64
	stableChecks        int64
	crossed             bool
}

func run(sc *scenario) (string, outcome) {
	var oc outcome
	f := netutil.NewIPv4Filter()
	for _, p := range sc.stable {
		if sc.zeroNetLast && p.net == 0 {
			continue // loaded last, below
		}
		if err := f.Add(ipnet(p)); err != nil {
			return "preload Add failed: " + err.Error(), oc
		}
	}
	for _, p := range sc.filler {
		if err := f.Add(ipnet(p)); err != nil {
			return "preload Add failed: " + err.Error(), oc
		}
	}
	if sc.zeroNetLast {
		// the stable range that begins at 0.0.0.0 is the youngest entry when the writers start
		for _, p := range sc.stable {
			if p.net == 0 {
				if err := f.Add(ipnet(p)); err != nil {
					return "preload Add failed: " + err.Error(), oc
				}
			}
		}
	}
	var adds atomic.Int64
	adds.Store(int64(len(sc.stable) + len(sc.filler)))
	var iters, stableChecks atomic.Int64
	var itersAtCross atomic.Int64
	itersAtCross.Store(-1)
	var done atomic.Bool
	var mu sync.Mutex
	var problems []string
	report := func(s string) {
		mu.Lock()
		if len(problems) < 5 {
			problems = append(problems, s)
		}
		mu.Unlock()
	}
	guard := func(name string, fn func()) {
		defer func() {
			if r := recover(); r != nil {
				report(fmt.Sprintf("%s panicked: %v", name, r))
			}
		}()
		fn()
	}
	hots := make([][]*hot, len(sc.owned))
	for wi, mine := range sc.owned {
		hots[wi] = make([]*hot, len(mine))
		for i, p := range mine {
			hots[wi][i] = &hot{p: p}
		}
	}
	var wg, rg sync.WaitGroup
	start := make(chan struct{})
	for wi, script := range sc.scripts {
		wg.Add(1)
		go func(wi int, script []wop) {
			defer wg.Done()
			<-start
			guard(fmt.Sprintf("writer %d", wi), func() {
				for k, o := range script {
					var err error
					h := hots[wi][o.idx]
					// a call that changes nothing - Add of a range that is there, Remove of one that is not - is no update:
					// the range is what it was before, during and after the call, and lookups must say so throughout
					redundant := h.present.Load() == o.add
					if !redundant {
						h.seq.Add(1) // odd: an update of this range is in flight
					}
					if (k+wi*7)%13 == 5 {
						// now and then a writer passes something that is not an IPv4 network (an entry of a mixed allow-list):
						// rejected, and nothing changes - the readers go on judging every range as before (round twenty-two)
						j := junkNets[(k/13+wi)%len(junkNets)]
						jerr := f.Remove(j)
						if (k/13)%2 == 0 {
							jerr = f.Add(j)
						}
						junkCalls.Add(1)
						if !errors.Is(jerr, netutil.ErrInvalidIPv4CIDR) {
							report(fmt.Sprintf("writer %d: a call with %v (not an IPv4 network) returned %v, want ErrInvalidIPv4CIDR", wi, j, jerr))
						}
					}
					n := ipnet(o.p)
					if o.wide {
						n = ipnetWide(o.p)
					}
					if o.add {
						err = f.Add(n)
						if err == nil {
							if n := adds.Add(1); n == 257 {
								itersAtCross.Store(iters.Load())
							}
						}
					} else {
						err = f.Remove(n)
					}
					if o.wide && errors.Is(err, netutil.ErrInvalidIPv4CIDR) {
						// rejected spelling: the call changed nothing, the range is what it was
						script[k].rejected, err = true, nil
						if !redundant {
							h.seq.Add(1)
						}
						continue
					}
					h.present.Store(o.add)
					if !redundant {
						h.seq.Add(1) // even again: stable until the next update
					}
					// read your own writes: this goroutine is the only one that ever touches this range, so right after
					// its call returned a lookup must see the new state, whatever the readers are doing meanwhile
					own := o.p.net | (uint32(k) & ^mask(o.p.ones) & 1)
					if got := f.Contains(ip(own, sc.sixteen && k%2 == 0)); got != o.add && !(sc.toggle && got) {
						what := map[bool]string{true: "Add", false: "Remove"}[o.add]
						report(fmt.Sprintf("writer %d: Contains(%v) = %v right after its own %s(%v/%d) returned", wi, ip(own, false), got, what, ip(o.p.net, false), o.p.ones))
					}
					if err != nil {
						report(fmt.Sprintf("writer %d op %d returned %v", wi, k, err))
					}
					// writer 0 also toggles 0.0.0.0/0: sometimes on and off at once, sometimes on for its next few updates
					// (what is added or removed while everything matches must still be right once 0.0.0.0/0 is gone)
					if sc.toggle && wi == 0 {
						switch {
						case k%7 == 3 && k%2 == 0:
							f.Add(ipnet(prefix{0, 0}))
							f.Remove(ipnet(prefix{0x12345678, 0}))
						case k%7 == 3:
							f.Add(ipnet(prefix{0, 0}))
						case k%7 == 6:
							f.Remove(ipnet(prefix{0x12345678, 0}))
						}
					}
				}
				if sc.toggle && wi == 0 {
					f.Remove(ipnet(prefix{0, 0})) // whatever the script's last steps were: 0.0.0.0/0 is off at the end
				}
			})
		}(wi, script)
	}
	for ri := 0; ri < sc.readers; ri++ {
		rg.Add(1)
		go func(ri int) {
			defer rg.Done()
			<-start
			guard(fmt.Sprintf("reader %d", ri), func() {
				x := uint32(ri*7919 + 1)
				for !done.Load() {
					x = x*1664525 + 1013904223
					p := sc.stable[int(x>>8)%len(sc.stable)]
					inside := p.net | (x & ^mask(p.ones))
					if !f.Contains(ip(inside, sc.sixteen && x&1 == 0)) {
						report(fmt.Sprintf("Contains(%v) = false during updates, although %v/%d is present for the whole run", ip(inside, false), ip(p.net, false), p.ones))
					}
					never := 30<<24 | x&0x00ffffff
					if !sc.toggle && f.Contains(ip(never, sc.sixteen && x&2 == 0)) {
						report(fmt.Sprintf("Contains(%v) = true during updates, although no range covering it is ever added", ip(never, false)))
					}
					// a writer-owned range: while its owner is inside Add/Remove any answer is fine; if the range was stable for
					// the whole lookup (same even sequence number before and after) the answer must be its state
					hw := hots[int(x>>4)%len(hots)]
					h := hw[int(x>>12)%len(hw)]
					if x&0x300 != 0 {
						h = hw[int(x>>12)%min(len(hw), 3)] // mostly the few ranges that are toggled over and over
					}
					addr := h.p.net | (x>>3)&^mask(h.p.ones)&1
					for tap := 0; tap < 2; tap++ {
						s1 := h.seq.Load()
						st := h.present.Load()
						got := f.Contains(ip(addr, sc.sixteen && tap == 1))
						s2 := h.seq.Load()
						if s1 == s2 && s1%2 == 0 && got != st && !(sc.toggle && got) {
							report(fmt.Sprintf("Contains(%v) = %v although %v/%d was %s for the whole duration of the call (no update of it in flight)", ip(addr, false), got, ip(h.p.net, false), h.p.ones,
								map[bool]string{true: "present", false: "absent"}[st]))
						}
						stableChecks.Add(1)
					}
					iters.Add(1)
				}
			})
		}(ri)
	}
	close(start)
	wg.Wait()
	// let the readers see the final state for a moment
	target := iters.Load() + int64(50*sc.readers)
	for i := 0; iters.Load() < target && i < 1000000; i++ {
		if len(problems) > 0 {
			break
		}
		runtimeGosched()
	}
	done.Store(true)
	rg.Wait()
	oc.readerIters = iters.Load()
	oc.stableChecks = stableChecks.Load()
	if c := itersAtCross.Load(); c >= 0 {
		oc.crossed = true
		oc.switchedDuringReads = c > 0 && c < oc.readerIters
	}
	if len(problems) > 0 {
		return strings.Join(problems, "; "), oc
	}
	// final state = model applied to each writer's script in order
	set := map[prefix]bool{}
	for _, p := range sc.stable {
		set[p] = true
	}
	for _, p := range sc.filler {
		set[p] = true
	}
	for _, script := range sc.scripts {
		for _, o := range script {
			if o.rejected {
				continue
			}
			if o.add {
				set[o.p] = true
			} else {
				delete(set, o.p)
			}
		}
	}
	contains := func(v uint32) bool {
		for p := range set {
			if v&mask(p.ones) == p.net {
				return true
			}
		}
		return false
	}
	check := func(v uint32) string {
		want := contains(v)
		if got := f.Contains(ip(v, false)); got != want {
			return fmt.Sprintf("after all updates Contains(%v) = %v, the model of the writers' scripts says %v", ip(v, false), got, want)
		}
		if got := f.Contains(ip(v, true)); got != want {
			return fmt.Sprintf("after all updates Contains(%v as 16-byte) = %v, model says %v", ip(v, false), got, want)
		}
		return ""
	}
	for _, script := range sc.scripts {
		for _, o := range script {
			first, last := o.p.net, o.p.net|^mask(o.p.ones)
			for _, v := range []uint32{first, last, first - 1, last + 1} {
				if m := check(v); m != "" {
					return m, oc
				}
			}
		}
	}
	for _, p := range sc.stable {
		for _, v := range []uint32{p.net, p.net | ^mask(p.ones), p.net | (^mask(p.ones) >> 1)} {
			if m := check(v); m != "" {
				return m, oc
			}
		}
	}
	if m := check(30<<24 | 5); m != "" {
		return m, oc
	}
	return "", oc
}

func TestScenarios(t *testing.T) {
	rt.Check(t, 200, 16000, func(t *rapid.T) {
		sc := genScenario(t)
		msg, oc := run(sc)
		if msg != "" {
			t.Fatalf("%s\nscenario: %s", msg, sc.render())
		}
		if oc.crossed {
			ev.Label("crossed_256_during_run")
		}
		if sc.twins > 0 {
			ev.Label("stable_ranges_that_begin_at_the_same_address")
		}
		if oc.switchedDuringReads {
			ev.Label("switch_while_readers_active")
		}
		ev.LabelN("reader_iterations", oc.readerIters)
		ev.LabelN("writer_calls_with_arguments_that_are_not_IPv4_networks", junkCalls.Swap(0))
		ev.LabelN("stable_range_lookups", oc.stableChecks)
		ev.Case(oc.switchedDuringReads, ev.Hash(sc.render(), fmt.Sprint(oc.readerIters)), sc.render)
	})
}

// TestSwitchHammer concentrates on the one moment that happens once per filter: the Add that moves the filter from
// the 256-entry list to the per-length maps. Many short trials, each with a fresh filter that is exactly full (with
// removed slots in front, which makes the migration longer), readers looking up always-present addresses in a tight
// loop, and one writer performing the crossing Add. A lookup of a range that is present for the whole trial must
// never be false, before, during or after the switch.
func TestSwitchHammer(t *testing.T) {
	rt.Check(t, 1500, 120000, func(t *rapid.T) {
		holes := rapid.SampledFrom([]int{0, 1, 16, 100, 200}).Draw(t, "removedSlotsInFront")
		readers := rapid.IntRange(1, 6).Draw(t, "readers")
		sixteen := rapid.Bool().Draw(t, "sixteenByte")
		f := netutil.NewIPv4Filter()
		var stable []prefix
		for i := 0; i < 256; i++ {
			p := prefix{10<<24 | uint32(i)<<8, 24}
			if err := f.Add(ipnet(p)); err != nil {
				t.Fatalf("Add: %v", err)
			}
			if i < holes {
				f.Remove(ipnet(p))
			} else {
				stable = append(stable, p)
			}
		}
		// writers that update their own ranges at the very moment of the crossing Add: each removes some ranges that
		// are in the list and adds one that is not; none of it may be lost or resurrected by the migration
		nw := rapid.IntRange(0, 3).Draw(t, "writersAtTheSwitch")
		victims := make([][]prefix, nw)
		for w := 0; w < nw && len(stable) > 40; w++ {
			k := rapid.IntRange(1, 8).Draw(t, "victims")
			victims[w] = append([]prefix(nil), stable[len(stable)-k:]...)
			stable = stable[:len(stable)-k]
		}
		var stop atomic.Bool
		var bad atomic.Pointer[string]
		var lookups atomic.Int64
		var rg sync.WaitGroup
		startCh := make(chan struct{})
		for r := 0; r < readers; r++ {
			rg.Add(1)
			go func(r int) {
				defer rg.Done()
				x := uint32(r*2654435761 + 12345)
				<-startCh
				for !stop.Load() {
					x = x*1664525 + 1013904223
					p := stable[int(x>>8)%len(stable)]
					a := p.net | x&0xff
					if !f.Contains(ip(a, sixteen && x&1 == 0)) {
						m := fmt.Sprintf("Contains(%v) = false while the filter switched from list to maps, although %v/24 was present all along", ip(a, false), ip(p.net, false))
						bad.CompareAndSwap(nil, &m)
						return
					}
					lookups.Add(1)
				}
			}(r)
		}
		close(startCh)
		for lookups.Load() < int64(readers) && bad.Load() == nil { // readers are up and running
			runtimeGosched()
		}
		var armed atomic.Bool
		var wg sync.WaitGroup
		for w := range victims {
			wg.Add(1)
			go func(w int) {
				defer wg.Done()
				for !armed.Load() {
				}
				for spin := 0; spin < w*40; spin++ { // staggered starts
					_ = armed.Load()
				}
				for _, v := range victims[w] {
					f.Remove(ipnet(v))
				}
				f.Add(ipnet(prefix{uint32(12+w) << 24, 8}))
			}(w)
		}
		// ... and one goroutine that switches 0.0.0.0/0 on and off in a tight loop across the crossing (match-all is kept
		// apart from the list and the maps; whatever it shares with them is shared at this moment)
		toggles := rapid.SampledFrom([]int{0, 0, 20, 200}).Draw(t, "matchAllTogglesAcrossTheSwitch")
		if toggles > 0 {
			wg.Add(1)
			go func() {
				defer wg.Done()
				for !armed.Load() {
				}
				for i := 0; i < toggles; i++ {
					f.Add(ipnet(prefix{0, 0}))
					f.Remove(ipnet(prefix{0x7f000001, 0}))
				}
			}()
		}
		crossing := prefix{11 << 24, 8}
		armed.Store(true)
		if err := f.Add(ipnet(crossing)); err != nil { // the 257th valid Add: the switch
			t.Fatalf("Add: %v", err)
		}
		wg.Wait()
		if toggles > 0 {
			// 0.0.0.0/0 is off again; an update after the switch finds everything that was added before it
			if f.Contains(ip(99<<24|0x010203, false)) {
				t.Fatalf("0.0.0.0/0 was switched on and off %d times while another goroutine's Add switched the filter from list to maps: afterwards an address no range covers is contained", toggles)
			}
			if !f.Contains(ip(crossing.net|5, false)) {
				t.Fatalf("the range added by the crossing Add is not contained afterwards (0.0.0.0/0 was toggled %d times across the switch)", toggles)
			}
			if err := f.Add(ipnet(prefix{14 << 24, 8})); err != nil {
				t.Fatalf("Add: %v", err)
			}
			for _, v := range []uint32{crossing.net | 5, 14<<24 | 1, stable[0].net | 3, stable[len(stable)-1].net | 3} {
				if !f.Contains(ip(v, false)) {
					t.Fatalf("after 0.0.0.0/0 was toggled %d times across the switch and one more range was added, Contains(%v) = false although a range covering it was added and never removed", toggles, ip(v, false))
				}
			}
			ev.Label("switch_hammer_with_match_all_toggled_across_the_switch")
		}
		for w := range victims {
			for _, v := range victims[w] {
				if f.Contains(ip(v.net|7, false)) {
					t.Fatalf("%v/24 was removed by a writer while another goroutine's Add switched the filter from list to maps: it is contained again afterwards", ip(v.net, false))
				}
			}
			if !f.Contains(ip(uint32(12+w)<<24|9, false)) {
				t.Fatalf("%d.0.0.0/8 was added by a writer during the switch and is not contained afterwards", 12+w)
			}
		}
		if nw > 0 {
			ev.Label("switch_hammer_with_writers_at_the_switch")
		}
		before := lookups.Load()
		for lookups.Load() < before+int64(4*readers) && bad.Load() == nil {
			runtimeGosched()
		}
		stop.Store(true)
		rg.Wait()
		if m := bad.Load(); m != nil {
			t.Fatalf("%s (removed slots in front: %d, readers: %d)", *m, holes, readers)
		}
		if !f.Contains(ip(crossing.net|5, false)) {
			t.Fatalf("the range added by the crossing Add is not contained afterwards")
		}
		ev.Label("switch_hammer")
		ev.LabelN("switch_hammer_lookups", lookups.Load())
		ev.Case(true, ev.Hash("hammer", fmt.Sprint(holes, readers, sixteen, lookups.Load())), func() string {
			return fmt.Sprintf("switch hammer: %d removed slots in front, %d readers, %d lookups around the crossing Add", holes, readers, lookups.Load())
		})
	})
}

// TestListModeChurn: a small filter - a handful of ranges, never more than 256 Add calls in its life - stays a plain
// list, and that is how most filters live. Many fresh filters per case; on each, one to three writers switch their own
// short-prefix range (128.0.0.0/1, 64.0.0.0/2, 32.0.0.0/3, 16.0.0.0/4 or longer ones inside those) on and off while
// readers look up addresses that no range ever covers - below 8.0.0.0, where every leading bit is zero, and at the top
// of the address space - and addresses of ranges that are there for the whole life of the filter. Run with and without
// the race detector: a slot that is updated word by word is no data race when the words are atomics.
func TestListModeChurn(t *testing.T) {
	rt.Check(t, 40, 6000, func(t *rapid.T) {
		nw := rapid.IntRange(1, 3).Draw(t, "writers")
		readers := rapid.IntRange(1, 4).Draw(t, "readers")
		toggles := rapid.IntRange(5, 70).Draw(t, "togglesPerWriter") // x 3 writers + stable < 256 Add calls
		sixteen := rapid.Bool().Draw(t, "sixteenByteProbes")
		regions := []prefix{{128 << 24, 1}, {64 << 24, 2}, {32 << 24, 3}, {16 << 24, 4}}
		owned := make([]prefix, nw)
		for w := range owned {
			r := regions[w]
			ones := rapid.SampledFrom([]int{r.ones, r.ones, r.ones + 1, 8, 12, 16, 24, 31, 32}).Draw(t, "ones")
			owned[w] = prefix{(r.net | uint32(rapid.IntRange(0, 1<<24-1).Draw(t, "low"))) & mask(ones), ones}
			if owned[w].net&mask(r.ones) != r.net {
				owned[w] = r
			}
		}
		var stable []prefix
		for i, n := 0, rapid.IntRange(1, 12).Draw(t, "stableRanges"); i < n; i++ {
			ones := rapid.SampledFrom([]int{8, 9, 16, 24, 32}).Draw(t, "stableOnes")
			stable = append(stable, prefix{(uint32(8+i)<<24 | uint32(rapid.IntRange(0, 1<<24-1).Draw(t, "stableLow"))) & mask(ones), ones}) // 8.x .. 15.x
		}
		nevers := []uint32{0, 1<<24 | 2<<16 | 3<<8 | 4, 5, 255, 7<<24 | 0xffffff, 3 << 24}
		var lookups, filters int64
		for trial := 0; trial < 25; trial++ {
			f := netutil.NewIPv4Filter()
			for _, p := range stable {
				if err := f.Add(ipnet(p)); err != nil {
					t.Fatalf("Add: %v", err)
				}
			}
			var stop atomic.Bool
			var bad atomic.Pointer[string]
			var n atomic.Int64
			start := make(chan struct{})
			var rg, wg sync.WaitGroup
			for r := 0; r < readers; r++ {
				rg.Add(1)
				go func(r int) {
					defer rg.Done()
					<-start
					x := uint32(r*7919 + trial + 1)
					for !stop.Load() && bad.Load() == nil {
						x = x*1664525 + 1013904223
						never := nevers[int(x>>9)%len(nevers)]
						if x&0x100 != 0 {
							never = x & 0x07ffffff // anything below 8.0.0.0
						}
						if f.Contains(ip(never, sixteen && x&1 == 0)) {
							s := fmt.Sprintf("Contains(%v) = true while ranges elsewhere were being added and removed; no range covering it is ever added", ip(never, false))
							bad.CompareAndSwap(nil, &s)
						}
						p := stable[int(x>>12)%len(stable)]
						inside := p.net | (x & ^mask(p.ones))
						if !f.Contains(ip(inside, sixteen && x&2 == 0)) {
							s := fmt.Sprintf("Contains(%v) = false during updates of other ranges, although %v/%d is present for the whole life of the filter", ip(inside, false), ip(p.net, false), p.ones)
							bad.CompareAndSwap(nil, &s)
						}
						n.Add(2)
					}
				}(r)
			}
			for w := 0; w < nw; w++ {
				wg.Add(1)
				go func(w int) {
					defer wg.Done()
					<-start
					p := owned[w]
					for k := 0; k < toggles && bad.Load() == nil; k++ {
						f.Add(ipnet(p))
						if !f.Contains(ip(p.net|uint32(k)&^mask(p.ones), false)) {
							s := fmt.Sprintf("writer %d: Contains = false right after its own Add(%v/%d) returned", w, ip(p.net, false), p.ones)
							bad.CompareAndSwap(nil, &s)
						}
						f.Remove(ipnet(p))
						if f.Contains(ip(p.net|uint32(k)&^mask(p.ones), false)) {
							s := fmt.Sprintf("writer %d: Contains = true right after its own Remove(%v/%d) returned", w, ip(p.net, false), p.ones)
							bad.CompareAndSwap(nil, &s)
						}
					}
				}(w)
			}
			close(start)
			wg.Wait()
			stop.Store(true)
			rg.Wait()
			if s := bad.Load(); s != nil {
				t.Fatalf("%s\nfilter: %d stable ranges, %d writers toggling %v, %d readers (trial %d)", *s, len(stable), nw, owned, readers, trial)
			}
			lookups += n.Load()
			filters++
		}
		ev.Label("list_mode_churn")
		ev.LabelN("list_mode_lookups", lookups)
		ev.Case(lookups > 0, ev.Hash("listchurn", fmt.Sprint(owned, stable, readers, toggles)), func() string {
			return fmt.Sprintf("%d fresh list-mode filters: %d stable ranges, writers toggling %v x%d, %d readers, %d lookups", filters, len(stable), owned, toggles, readers, lookups)
		})
	})
}
