// C12 — IPv4Filter is safe and consistent under concurrent updates and lookups.
package c12

import (
	"encoding/binary"
	"fmt"
	"net"
	"strings"
	"sync"
	"sync/atomic"
	"testing"

	"github.com/whoisnian/glb/util/netutil"
	"pgregory.net/rapid"

	"verif/harness/internal/ev"
	"verif/harness/internal/rt"
)

func TestMain(m *testing.M) {
	ev.Rule("cases = scenarios: stable ranges added before the run and never removed, W writers each owning disjoint ranges with generated add/remove scripts (in half of the scenarios one writer also toggles 0.0.0.0/0), " +
		"a preload sized so that the 256-entry list-to-map switch happens while R readers are running; readers assert in-line that an address inside a stable range is contained and that an address no script ever covers is not " +
		"(the latter only while 0.0.0.0/0 cannot be set); after all goroutines joined the filter must equal the set-of-prefixes model applied to each writer's script; run under the race detector; " +
		"non-trivial = the switch happened while readers were active (reader iterations observed both before and after the crossing); distinct by scenario hash")
	ev.Assume("interleavings come from the real Go scheduler (GOMAXPROCS swept in the thorough tier): sampled, not enumerated; the migration window is short, so a torn migration is caught with high probability per run, not certainly")
	rt.Main(m)
}

type prefix struct {
	net  uint32
	ones int
}

func mask(ones int) uint32 {
	if ones == 0 {
		return 0
	}
	return ^uint32(0) << (32 - ones)
}

func ipnet(p prefix) *net.IPNet {
	b := make(net.IP, 4)
	binary.BigEndian.PutUint32(b, p.net)
	return &net.IPNet{IP: b, Mask: net.CIDRMask(p.ones, 32)}
}

func ip(v uint32, sixteen bool) net.IP {
	b := make(net.IP, 4)
	binary.BigEndian.PutUint32(b, v)
	if sixteen {
		return b.To16()
	}
	return b
}

type wop struct {
	add bool
	p   prefix
}

type scenario struct {
	stable  []prefix
	filler  []prefix // preloaded and never touched again, outside the probed regions
	scripts [][]wop
	toggle  bool // writer 0 also toggles 0.0.0.0/0
	readers int
	sixteen bool
}

func genScenario(t *rapid.T) *scenario {
	sc := &scenario{readers: rapid.IntRange(1, 4).Draw(t, "readers"), toggle: rapid.Bool().Draw(t, "toggleMatchAll"), sixteen: rapid.Bool().Draw(t, "sixteenByteProbes")}
	nstable := rapid.IntRange(1, 40).Draw(t, "nstable")
	for i := 0; i < nstable; i++ {
		ones := rapid.SampledFrom([]int{16, 20, 24, 28, 32}).Draw(t, "stableOnes")
		sc.stable = append(sc.stable, prefix{(10<<24 | uint32(i)<<16 | uint32(rapid.IntRange(0, 65535).Draw(t, "stableLow"))) & mask(ones), ones})
	}
	// preload so that the list is close to overflowing when the writers start
	w := rapid.IntRange(1, 4).Draw(t, "writers")
	total := rapid.IntRange(200, 262).Draw(t, "preloadTotal")
	for i := nstable; i < total; i++ {
		sc.filler = append(sc.filler, prefix{40<<24 | uint32(i)<<8, 24})
	}
	for wi := 0; wi < w; wi++ {
		n := rapid.IntRange(10, 60).Draw(t, "scriptLen")
		var script []wop
		var mine []prefix
		for k := 0; k < n; k++ {
			if len(mine) > 0 && rapid.IntRange(0, 2).Draw(t, "remove") == 0 {
				p := rapid.SampledFrom(mine).Draw(t, "victim")
				script = append(script, wop{false, p})
				continue
			}
			ones := rapid.SampledFrom([]int{9, 12, 16, 24, 30, 32}).Draw(t, "ones")
			p := prefix{(uint32(20+wi)<<24 | uint32(rapid.IntRange(0, 1<<24-1).Draw(t, "low"))) & mask(ones), ones}
			mine = append(mine, p)
			script = append(script, wop{true, p})
		}
		sc.scripts = append(sc.scripts, script)
	}
	return sc
}

func (sc *scenario) render() string {
	n := 0
	for _, s := range sc.scripts {
		n += len(s)
	}
	return fmt.Sprintf("stable=%d preload=%d writers=%d ops=%d readers=%d toggle0/0=%v sixteenByte=%v", len(sc.stable), len(sc.stable)+len(sc.filler), len(sc.scripts), n, sc.readers, sc.toggle, sc.sixteen)
}

type outcome struct {
	switchedDuringReads bool
	readerIters         int64
	crossed             bool
}

func run(sc *scenario) (string, outcome) {
	var oc outcome
	f := netutil.NewIPv4Filter()
	for _, p := range sc.stable {
		if err := f.Add(ipnet(p)); err != nil {
			return "preload Add failed: " + err.Error(), oc
		}
	}
	for _, p := range sc.filler {
		if err := f.Add(ipnet(p)); err != nil {
			return "preload Add failed: " + err.Error(), oc
		}
	}
	var adds atomic.Int64
	adds.Store(int64(len(sc.stable) + len(sc.filler)))
	var iters atomic.Int64
	var itersAtCross atomic.Int64
	itersAtCross.Store(-1)
	var done atomic.Bool
	var mu sync.Mutex
	var problems []string
	report := func(s string) {
		mu.Lock()
		if len(problems) < 5 {
			problems = append(problems, s)
		}
		mu.Unlock()
	}
	guard := func(name string, fn func()) {
		defer func() {
			if r := recover(); r != nil {
				report(fmt.Sprintf("%s panicked: %v", name, r))
			}
		}()
		fn()
	}
	var wg, rg sync.WaitGroup
	start := make(chan struct{})
	for wi, script := range sc.scripts {
		wg.Add(1)
		go func(wi int, script []wop) {
			defer wg.Done()
			<-start
			guard(fmt.Sprintf("writer %d", wi), func() {
				for k, o := range script {
					var err error
					if o.add {
						err = f.Add(ipnet(o.p))
						if n := adds.Add(1); n == 257 {
							itersAtCross.Store(iters.Load())
						}
					} else {
						err = f.Remove(ipnet(o.p))
					}
					if err != nil {
						report(fmt.Sprintf("writer %d op %d returned %v", wi, k, err))
					}
					if sc.toggle && wi == 0 && k%7 == 3 {
						f.Add(ipnet(prefix{0, 0}))
						f.Remove(ipnet(prefix{0x12345678, 0}))
					}
				}
			})
		}(wi, script)
	}
	for ri := 0; ri < sc.readers; ri++ {
		rg.Add(1)
		go func(ri int) {
			defer rg.Done()
			<-start
			guard(fmt.Sprintf("reader %d", ri), func() {
				x := uint32(ri*7919 + 1)
				for !done.Load() {
					x = x*1664525 + 1013904223
					p := sc.stable[int(x>>8)%len(sc.stable)]
					inside := p.net | (x & ^mask(p.ones))
					if !f.Contains(ip(inside, sc.sixteen && x&1 == 0)) {
						report(fmt.Sprintf("Contains(%v) = false during updates, although %v/%d is present for the whole run", ip(inside, false), ip(p.net, false), p.ones))
					}
					never := 30<<24 | x&0x00ffffff
					if !sc.toggle && f.Contains(ip(never, sc.sixteen && x&2 == 0)) {
						report(fmt.Sprintf("Contains(%v) = true during updates, although no range covering it is ever added", ip(never, false)))
					}
					// a writer-owned address: any answer is fine while it is being updated, it must just not crash
					f.Contains(ip(uint32(20+int(x>>4)%len(sc.scripts))<<24|x&0x00ffffff, false))
					iters.Add(1)
				}
			})
		}(ri)
	}
	close(start)
	wg.Wait()
	// let the readers see the final state for a moment
	target := iters.Load() + int64(50*sc.readers)
	for i := 0; iters.Load() < target && i < 1000000; i++ {
		if len(problems) > 0 {
			break
		}
		runtimeGosched()
	}
	done.Store(true)
	rg.Wait()
	oc.readerIters = iters.Load()
	if c := itersAtCross.Load(); c >= 0 {
		oc.crossed = true
		oc.switchedDuringReads = c > 0 && c < oc.readerIters
	}
	if len(problems) > 0 {
		return strings.Join(problems, "; "), oc
	}
	// final state = model applied to each writer's script in order
	set := map[prefix]bool{}
	for _, p := range sc.stable {
		set[p] = true
	}
	for _, p := range sc.filler {
		set[p] = true
	}
	for _, script := range sc.scripts {
		for _, o := range script {
			if o.add {
				set[o.p] = true
			} else {
				delete(set, o.p)
			}
		}
	}
	contains := func(v uint32) bool {
		for p := range set {
			if v&mask(p.ones) == p.net {
				return true
			}
		}
		return false
	}
	check := func(v uint32) string {
		want := contains(v)
		if got := f.Contains(ip(v, false)); got != want {
			return fmt.Sprintf("after all updates Contains(%v) = %v, the model of the writers' scripts says %v", ip(v, false), got, want)
		}
		if got := f.Contains(ip(v, true)); got != want {
			return fmt.Sprintf("after all updates Contains(%v as 16-byte) = %v, model says %v", ip(v, false), got, want)
		}
		return ""
	}
	for _, script := range sc.scripts {
		for _, o := range script {
			first, last := o.p.net, o.p.net|^mask(o.p.ones)
			for _, v := range []uint32{first, last, first - 1, last + 1} {
				if m := check(v); m != "" {
					return m, oc
				}
			}
		}
	}
	for _, p := range sc.stable {
		if m := check(p.net); m != "" {
			return m, oc
		}
	}
	if m := check(30<<24 | 5); m != "" {
		return m, oc
	}
	return "", oc
}

func TestScenarios(t *testing.T) {
	rt.Check(t, 200, 6000, func(t *rapid.T) {
		sc := genScenario(t)
		msg, oc := run(sc)
		if msg != "" {
			t.Fatalf("%s\nscenario: %s", msg, sc.render())
		}
		if oc.crossed {
			ev.Label("crossed_256_during_run")
		}
		if oc.switchedDuringReads {
			ev.Label("switch_while_readers_active")
		}
		ev.LabelN("reader_iterations", oc.readerIters)
		ev.Case(oc.switchedDuringReads, ev.Hash(sc.render(), fmt.Sprint(oc.readerIters)), sc.render)
	})
}
