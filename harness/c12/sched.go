package c12

import "runtime"

func runtimeGosched() { runtime.Gosched() }
