// C08 — TaskLane runs at most laneSize tasks at once and shares work across lanes.
package c08

import (
	"fmt"
	"strings"
	"testing"

	"pgregory.net/rapid"

	"verif/harness/internal/ev"
	ls "verif/harness/internal/lanesim"
	"verif/harness/internal/rt"
)

func TestMain(m *testing.M) {
	ev.Rule("cases = task-lane scenario programs with laneSize >= 2 that first pin 1..laneSize-1 workers with gated tasks and then push most tasks to the pinned lanes (in particular everything to one lane), executed inside a synctest bubble; " +
		"oracle = a gauge of task bodies between entry and exit of Start() never exceeds laneSize, and at every quiescent point with a live context no accepted task waits while fewer than laneSize workers are busy " +
		"(so with fewer than laneSize workers pinned every non-gated task has run); " +
		"non-trivial = a task was received by a worker other than its lane's own while the own worker was inside a gated task; distinct by program hash")
	ev.Assume("latency ('as soon as') is not measured: only the outcome at quiescence, where nothing can happen any more without a director action, is judged")
	rt.Main(m)
}

var bias = ls.Bias{
	MinLanes:  2,
	Weights:   map[ls.OpKind]int{ls.OpPush: 8, ls.OpSpawnPush: 5, ls.OpOpen: 2, ls.OpSettle: 6, ls.OpAdvance: 3, ls.OpStatus: 1, ls.OpFreeze: 1, ls.OpThaw: 1},
	TaskKinds: []ls.TaskKind{ls.TInstant, ls.TInstant, ls.TInstant, ls.TSleep, ls.TGated, ls.TPanic, ls.TNil},
	PinFirst:  true,
	MaxOps:    40,
}

func TestScenarios(t *testing.T) {
	rt.Check(t, 2000, 3000000, func(t *rapid.T) {
		p := ls.GenProgram(bias).Draw(t, "program")
		res, bubble := ls.RunInBubble(t, p)
		if bubble != "" {
			ev.Label("skipped:bubble_failure_(belongs_to_C07)")
			ev.Inconclusive(1)
			return
		}
		if own := ls.Own(res, "C08"); len(own) > 0 {
			t.Fatalf("%s\nprogram: %s", strings.Join(own, "\n"), p)
		}
		if res.SharedWhileOwnPinned > 0 {
			ev.Label("task_ran_on_other_worker_while_own_pinned")
		}
		ev.Label(fmt.Sprintf("max_running=%d_of_%d", res.MaxRunning, p.LaneSize))
		ev.LabelN("quiescent_checks", int64(res.QuiescentChecks))
		ev.Case(res.SharedWhileOwnPinned > 0, ev.Hash(p.String()), func() string {
			return fmt.Sprintf("%s => accepted=%d started=%d viaSharedWhileOwnPinned=%d maxRunning=%d", p, res.Accepted, res.Started, res.SharedWhileOwnPinned, res.MaxRunning)
		})
	})
}

var anySize = ls.Bias{
	Weights:   map[ls.OpKind]int{ls.OpPush: 8, ls.OpSpawnPush: 6, ls.OpOpen: 2, ls.OpSettle: 4, ls.OpAdvance: 3},
	TaskKinds: []ls.TaskKind{ls.TInstant, ls.TSleep, ls.TSleep, ls.TGated, ls.TPanic, ls.TNil},
	MaxOps:    40,
	LaneFocus: true,
}

// TestBoundAnySize checks the "never more than laneSize at once" half for every configuration incl. a single lane.
func TestBoundAnySize(t *testing.T) {
	rt.Check(t, 1500, 1500000, func(t *rapid.T) {
		p := ls.GenProgram(anySize).Draw(t, "program")
		res, bubble := ls.RunInBubble(t, p)
		if bubble != "" {
			ev.Inconclusive(1)
			return
		}
		if own := ls.Own(res, "C08"); len(own) > 0 {
			t.Fatalf("%s\nprogram: %s", strings.Join(own, "\n"), p)
		}
		ev.Label(fmt.Sprintf("anysize:max_running=%d_of_%d", res.MaxRunning, p.LaneSize))
		ev.Case(res.MaxRunning == p.LaneSize && res.Accepted > p.LaneSize, ev.Hash("anysize", p.String()), func() string {
			return fmt.Sprintf("%s => accepted=%d maxRunning=%d", p, res.Accepted, res.MaxRunning)
		})
	})
}
