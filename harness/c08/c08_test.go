// C08 — TaskLane runs at most laneSize tasks at once and shares work across lanes.
package c08

import (
	"context"
	"fmt"
	"runtime"
	"strings"
	"sync"
	"sync/atomic"
	"testing"
	"time"

	"github.com/whoisnian/glb/tasklane"

	"pgregory.net/rapid"

	"verif/harness/internal/ev"
	ls "verif/harness/internal/lanesim"
	"verif/harness/internal/rt"
)

func TestMain(m *testing.M) {
	ev.Rule("cases = task-lane scenario programs with laneSize >= 2 that first pin 1..laneSize-1 workers with gated tasks and then push most tasks to the pinned lanes (in particular everything to one lane), executed inside a synctest bubble; " +
		"oracle = a gauge of task bodies between entry and exit of Start() never exceeds laneSize, and at every quiescent point with a live context no accepted task waits while fewer than laneSize workers are busy " +
		"(so with fewer than laneSize workers pinned every non-gated task has run); " +
		"non-trivial = a task was received by a worker other than its lane's own while the own worker was inside a gated task; distinct by program hash")
	ev.Assume("latency ('as soon as') is not measured: only the outcome at quiescence, where nothing can happen any more without a director action, is judged")
	rt.Main(m)
}

var bias = ls.Bias{
	MinLanes:  2,
	Weights:   map[ls.OpKind]int{ls.OpPush: 8, ls.OpSpawnPush: 5, ls.OpOpen: 2, ls.OpSettle: 6, ls.OpAdvance: 3, ls.OpStatus: 1, ls.OpFreeze: 1, ls.OpThaw: 1},
	TaskKinds: []ls.TaskKind{ls.TInstant, ls.TInstant, ls.TInstant, ls.TSleep, ls.TGated, ls.TPanic, ls.TNil},
	PinFirst:  true,
	MaxOps:    40,
}

func TestScenarios(t *testing.T) {
	rt.Check(t, 2000, 3000000, func(t *rapid.T) {
		p := ls.GenProgram(bias).Draw(t, "program")
		res, bubble := ls.RunInBubble(t, p)
		if bubble != "" {
			ev.Label("skipped:bubble_failure_(belongs_to_C07)")
			ev.Inconclusive(1)
			return
		}
		if own := ls.Own(res, "C08"); len(own) > 0 {
			t.Fatalf("%s\nprogram: %s", strings.Join(own, "\n"), p)
		}
		if res.SharedWhileOwnPinned > 0 {
			ev.Label("task_ran_on_other_worker_while_own_pinned")
		}
		ev.Label(fmt.Sprintf("max_running=%d_of_%d", res.MaxRunning, p.LaneSize))
		ev.LabelN("quiescent_checks", int64(res.QuiescentChecks))
		ev.Case(res.SharedWhileOwnPinned > 0, ev.Hash(p.String()), func() string {
			return fmt.Sprintf("%s => accepted=%d started=%d viaSharedWhileOwnPinned=%d maxRunning=%d", p, res.Accepted, res.Started, res.SharedWhileOwnPinned, res.MaxRunning)
		})
	})
}

var anySize = ls.Bias{
	Weights:   map[ls.OpKind]int{ls.OpPush: 8, ls.OpSpawnPush: 6, ls.OpOpen: 2, ls.OpSettle: 4, ls.OpAdvance: 3},
	TaskKinds: []ls.TaskKind{ls.TInstant, ls.TSleep, ls.TSleep, ls.TGated, ls.TPanic, ls.TNil},
	MaxOps:    40,
	LaneFocus: true,
}

// TestBoundAnySize checks the "never more than laneSize at once" half for every configuration incl. a single lane.
func TestBoundAnySize(t *testing.T) {
	rt.Check(t, 1500, 1500000, func(t *rapid.T) {
		p := ls.GenProgram(anySize).Draw(t, "program")
		res, bubble := ls.RunInBubble(t, p)
		if bubble != "" {
			ev.Inconclusive(1)
			return
		}
		if own := ls.Own(res, "C08"); len(own) > 0 {
			t.Fatalf("%s\nprogram: %s", strings.Join(own, "\n"), p)
		}
		ev.Label(fmt.Sprintf("anysize:max_running=%d_of_%d", res.MaxRunning, p.LaneSize))
		ev.Case(res.MaxRunning == p.LaneSize && res.Accepted > p.LaneSize, ev.Hash("anysize", p.String()), func() string {
			return fmt.Sprintf("%s => accepted=%d maxRunning=%d", p, res.Accepted, res.MaxRunning)
		})
	})
}

// ---- lanes on contexts that can never be cancelled (real clock, outside a bubble) ----

type neverDone struct{ context.Context } // a context implementation of the caller's own whose Done() is nil

func (neverDone) Done() <-chan struct{} { return nil }
func (neverDone) Err() error            { return nil }

type plainTask struct {
	started atomic.Int32
	gate    chan struct{}
}

func (p *plainTask) Start() {
	p.started.Add(1)
	if p.gate != nil {
		<-p.gate
	}
}

// TestNeverCancelledContext: context.Background(), context.WithoutCancel(...) and a context of the caller's own with a
// nil Done channel are legitimate contexts for a lane that lives as long as the process. Work sharing does not depend
// on the context: with k < laneSize workers pinned, a task queued behind a pinned worker is started by an idle one.
// The lane can never be shut down, so this runs on the real clock outside a bubble and leaves the lane's goroutines
// parked; "as soon as" is judged with a bound of seconds on something that takes microseconds.
const waitPatience = 90 * time.Second

func TestNeverCancelledContext(t *testing.T) {
	rt.Check(t, 12, 600, func(t *rapid.T) {
		var ctx context.Context
		flavour := rapid.SampledFrom([]string{"Background", "TODO", "WithoutCancel", "own implementation with a nil Done channel"}).Draw(t, "context")
		switch flavour {
		case "Background":
			ctx = context.Background()
		case "TODO":
			ctx = context.TODO()
		case "WithoutCancel":
			parent, cancel := context.WithCancel(context.Background())
			cancel()
			ctx = context.WithoutCancel(parent)
		default:
			ctx = neverDone{context.Background()}
		}
		lanes := rapid.IntRange(2, 5).Draw(t, "laneSize")
		queue := rapid.IntRange(1, 3).Draw(t, "queueSize")
		pinned := rapid.IntRange(1, lanes-1).Draw(t, "pinnedWorkers")
		tl := tasklane.New(ctx, lanes, queue)
		tl.SetTimeout(2 * time.Minute) // never reached on a lane that works; a loaded machine must not turn into a timeout
		gate := make(chan struct{})
		defer close(gate)
		var blockers []*plainTask
		for l := 0; l < pinned; l++ {
			b := &plainTask{gate: gate}
			blockers = append(blockers, b)
			if err := tl.PushTask(b, l); err != nil {
				t.Fatalf("PushTask of a blocking task returned %v", err)
			}
		}
		waitFor := func(cond func() bool) bool {
			// microseconds on a lane that works; the bound only ends the wait for something that will never happen, and is
			// far beyond anything a loaded machine needs
			deadline := time.Now().Add(waitPatience)
			for !cond() {
				if time.Now().After(deadline) {
					return false
				}
				time.Sleep(50 * time.Microsecond)
			}
			return true
		}
		if !waitFor(func() bool {
			for _, b := range blockers {
				if b.started.Load() == 0 {
					return false
				}
			}
			return true
		}) {
			t.Fatalf("%s context, laneSize %d: the %d blocking tasks were not all started within a minute and a half", flavour, lanes, pinned)
		}
		// everything else goes to the pinned lanes: behind a busy worker, while lanes-pinned workers are idle
		var rest []*plainTask
		for i := 0; i < queue; i++ {
			for l := 0; l < pinned; l++ {
				p := &plainTask{}
				if err := tl.PushTask(p, l); err != nil {
					t.Fatalf("PushTask returned %v", err)
				}
				rest = append(rest, p)
			}
		}
		if !waitFor(func() bool {
			for _, p := range rest {
				if p.started.Load() == 0 {
					return false
				}
			}
			return true
		}) {
			n := 0
			for _, p := range rest {
				if p.started.Load() > 0 {
					n++
				}
			}
			t.Fatalf("lane on a %s context, laneSize %d, queueSize %d: %d workers are pinned by long tasks, %d are idle, and %d tasks were queued behind the pinned workers - only %d of them were started within a minute and a half", flavour, lanes, queue, pinned, lanes-pinned, len(rest), n)
		}
		for _, p := range rest {
			if c := p.started.Load(); c != 1 {
				t.Fatalf("a task was started %d times", c)
			}
		}
		ev.Label("never_cancelled_context:" + flavour)
		ev.Case(true, ev.Hash("never", flavour, fmt.Sprint(lanes, queue, pinned)), func() string {
			return fmt.Sprintf("lane on a %s context: laneSize %d, queueSize %d, %d workers pinned, %d tasks queued behind them all ran on the idle workers", flavour, lanes, queue, pinned, len(rest))
		})
	})
}

// TestLongLivedLane: a lane that has already served thousands of tasks is a lane like on its first day. The worker of
// lane 0 takes n instant tasks one by one (the lane settles after each), n around 4096 and 8192; then every worker is
// given a gated task and more gated tasks are queued behind them: never more than laneSize run, and the queued ones
// wait. (Whatever a worker does after so many tasks - renewing its goroutine, trimming a buffer - stays inside.)
func TestLongLivedLane(t *testing.T) {
	rt.Check(t, 12, 1500, func(t *rapid.T) {
		lanes := rapid.IntRange(1, 3).Draw(t, "laneSize")
		n := rapid.SampledFrom([]int{4093, 4094, 4095, 4096, 4097, 8190, 8191, 8192}).Draw(t, "warmUpTasks") + rapid.IntRange(0, 2).Draw(t, "plus")
		p := ls.Program{LaneSize: lanes, QueueSize: rapid.IntRange(1, 3).Draw(t, "queueSize"), Timeout: time.Second, Long: true}
		for i := 0; i < n; i++ {
			p.Ops = append(p.Ops, ls.Op{Kind: ls.OpPush, Lane: 0, Task: ls.TaskSpec{Kind: ls.TInstant}}, ls.Op{Kind: ls.OpSettle})
		}
		for round := 0; round < 2; round++ {
			for l := 0; l < lanes; l++ {
				p.Ops = append(p.Ops, ls.Op{Kind: ls.OpPush, Lane: l, Task: ls.TaskSpec{Kind: ls.TGated, Gate: 1}}, ls.Op{Kind: ls.OpSettle})
			}
		}
		p.Ops = append(p.Ops, ls.Op{Kind: ls.OpStatus}, ls.Op{Kind: ls.OpOpen, Gate: 1}, ls.Op{Kind: ls.OpSettle})
		res, bubble := ls.RunInBubble(t, p)
		if bubble != "" {
			t.Fatalf("the bubble failed: %s\nprogram: %s", bubble, p)
		}
		if own := ls.Own(res, "C08"); len(own) > 0 {
			t.Fatalf("%s\nprogram: %s", strings.Join(own, "\n"), p)
		}
		ev.Label("lane_that_has_served_thousands_of_tasks")
		ev.Case(res.MaxRunning == lanes, ev.Hash("long", p.String()), func() string { return fmt.Sprintf("%s => maxRunning=%d", p, res.MaxRunning) })
	})
}

// TestVeryLongLivedLane: the same lane after 2^16 tasks, give or take a few - where a 16-bit ticket, sequence number or
// per-worker tally would roll over (round twenty-three, after C11-agent22 and C05-agent23 showed what counter widths
// hide). Thorough tier only (a case is 65 000 pushes, each followed by a settle: ten seconds and more on a busy machine).
func TestVeryLongLivedLane(t *testing.T) {
	if !rt.Thorough() {
		t.Skip("thorough tier only")
	}
	rt.Check(t, 1, 16, func(t *rapid.T) {
		lanes := rapid.IntRange(1, 3).Draw(t, "laneSize")
		n := 1<<16 - 3 + rapid.IntRange(0, 5).Draw(t, "plus")
		spread := rapid.IntRange(0, 1).Draw(t, "spreadOverTheLanes") // 0: everything through lane 0
		p := ls.Program{LaneSize: lanes, QueueSize: rapid.IntRange(1, 3).Draw(t, "queueSize"), Timeout: time.Second, Long: true}
		for i := 0; i < n; i++ {
			p.Ops = append(p.Ops, ls.Op{Kind: ls.OpPush, Lane: i % lanes * spread, Task: ls.TaskSpec{Kind: ls.TInstant}}, ls.Op{Kind: ls.OpSettle})
		}
		for round := 0; round < 2; round++ {
			for l := 0; l < lanes; l++ {
				p.Ops = append(p.Ops, ls.Op{Kind: ls.OpPush, Lane: l, Task: ls.TaskSpec{Kind: ls.TGated, Gate: 1}}, ls.Op{Kind: ls.OpSettle})
			}
		}
		p.Ops = append(p.Ops, ls.Op{Kind: ls.OpStatus}, ls.Op{Kind: ls.OpOpen, Gate: 1}, ls.Op{Kind: ls.OpSettle})
		res, bubble := ls.RunInBubble(t, p)
		if bubble != "" {
			t.Fatalf("the bubble failed: %s\nprogram: %d instant tasks, then two gated tasks per lane (laneSize %d)", bubble, n, lanes)
		}
		if own := ls.Own(res, "C08"); len(own) > 0 {
			t.Fatalf("%s\nprogram: %d instant tasks, then two gated tasks per lane (laneSize %d)", strings.Join(own, "\n"), n, lanes)
		}
		ev.Label("lane_that_has_served_2^16_tasks")
		ev.Case(res.MaxRunning == lanes, ev.Hash("verylong", fmt.Sprint(lanes, n, p.QueueSize)), func() string {
			return fmt.Sprintf("laneSize=%d queueSize=%d: %d instant tasks, then two gated tasks per lane => maxRunning=%d", lanes, p.QueueSize, n, res.MaxRunning)
		})
	})
}

// TestFirstPushesTogether: the first thing that happens to many lanes is that several goroutines push at once (a fan-out
// right after start-up). Real goroutines on the real clock, many fresh lanes per case: two to eight producers leave a
// spin barrier together and push gated tasks, more tasks than there are workers; whatever the lane sets up on first
// use, never more than laneSize of them run. (The bound cannot be missed by waiting too briefly: waiting longer only
// lets more tasks start.)
func TestFirstPushesTogether(t *testing.T) {
	rt.Check(t, 8, 400, func(t *rapid.T) {
		lanes := rapid.IntRange(1, 3).Draw(t, "laneSize")
		queue := rapid.IntRange(1, 3).Draw(t, "queueSize")
		producers := rapid.IntRange(2, 8).Draw(t, "producers")
		perProducer := rapid.IntRange(1, 2).Draw(t, "tasksPerProducer")
		trials := 150
		for trial := 0; trial < trials; trial++ {
			ctx, cancel := context.WithCancel(context.Background())
			tl := tasklane.New(ctx, lanes, queue)
			tl.SetTimeout(20 * time.Millisecond) // a full lane refuses: that is fine here
			gate := make(chan struct{})
			var running, maxRunning, accepted, arrived atomic.Int32
			task := func() *funcTask {
				return &funcTask{fn: func() {
					n := running.Add(1)
					for {
						m := maxRunning.Load()
						if n <= m || maxRunning.CompareAndSwap(m, n) {
							break
						}
					}
					<-gate
					running.Add(-1)
				}}
			}
			var wg sync.WaitGroup
			for p := 0; p < producers; p++ {
				wg.Add(1)
				go func(p int) {
					defer wg.Done()
					arrived.Add(1)
					for spin := 0; arrived.Load() < int32(producers); spin++ {
						if spin > 100 {
							runtime.Gosched()
						}
					}
					for k := 0; k < perProducer; k++ {
						if tl.PushTask(task(), (p+k)%lanes) == nil {
							accepted.Add(1)
						}
					}
				}(p)
			}
			wg.Wait()
			// accepted tasks beyond the workers' hands sit in the queues; give idle workers (if the lane has more than it
			// should) a moment to take them
			deadline := time.Now().Add(waitPatience)
			for running.Load() < min(int32(lanes), accepted.Load()) && time.Now().Before(deadline) {
				time.Sleep(50 * time.Microsecond)
			}
			time.Sleep(time.Millisecond)
			got := maxRunning.Load()
			close(gate)
			cancel()
			tl.Wait()
			if got > int32(lanes) {
				t.Fatalf("fresh lane (laneSize %d, queueSize %d), %d producers pushing their first tasks together: %d tasks were running at once (trial %d)", lanes, queue, producers, got, trial)
			}
		}
		ev.Label("first_pushes_together")
		ev.Case(true, ev.Hash("first", fmt.Sprint(lanes, queue, producers, perProducer)), func() string {
			return fmt.Sprintf("%d fresh lanes (laneSize %d, queueSize %d): %d producers push %d gated task(s) each at the same moment; never more than laneSize ran", trials, lanes, queue, producers, perProducer)
		})
	})
}

type funcTask struct{ fn func() }

func (f *funcTask) Start() { f.fn() }
