module verif/harness

go 1.26.8

require (
	github.com/whoisnian/glb v0.0.0
	pgregory.net/rapid v1.3.0
)

require golang.org/x/sys v0.21.0 // indirect

replace github.com/whoisnian/glb => /repo
