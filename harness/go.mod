module verif/harness

go 1.26.8

require (
	github.com/whoisnian/glb v0.0.0
	pgregory.net/rapid v1.3.0
)

replace github.com/whoisnian/glb => /repo
