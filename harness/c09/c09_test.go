// C09 — Config sources obey priority: command line > environment > JSON > default.
package c09

import (
	"bytes"
	"encoding/base64"
	"encoding/json"
	"fmt"
	"math"
	"os"
	"path/filepath"
	"reflect"
	"strconv"
	"strings"
	"testing"
	"time"
	"unicode"

	"github.com/whoisnian/glb/config"
	"pgregory.net/rapid"

	"verif/harness/internal/ev"
	"verif/harness/internal/rt"
)

var tmpDir string

func TestMain(m *testing.M) {
	ev.Rule("cases = a struct type built with reflect.StructOf (1..8 fields of the nine kinds, 0..2 nested structs, both tag syntaxes, empty tags) x per field an independent 4-bit mask of the sources that mention it " +
		"(tag default, JSON, environment, command line) with a typed value or the empty text per mentioning source x JSON carrier (file via -config, CFG_CONFIG_B64, or both); " +
		"oracle = round trip by construction: the field must hold the typed value of the highest-priority mentioning source (empty text = zero value), Lookup(name).Env must be CFG_ + upper-snake path; " +
		"non-trivial = some field is mentioned by >= 2 sources with different values or only by a source below the command line; distinct by case hash")
	ev.Assume("textual values are rendered with the canonical formatter of each type (decimal integers, 'g' floats, Duration.String, std base64); base-prefixed or underscore numerals are not generated")
	ev.Assume("field names are built from distinct words so that the expected CFG_* name is collision-free")
	for _, e := range os.Environ() {
		if k, _, _ := strings.Cut(e, "="); strings.HasPrefix(k, "CFG_") {
			os.Unsetenv(k)
		}
	}
	var err error
	tmpDir, err = os.MkdirTemp("", "c09-")
	if err != nil {
		panic(err)
	}
	code := m.Run()
	ev.Flush()
	os.RemoveAll(tmpDir)
	os.Exit(code)
}

var kinds = []string{"bool", "int", "int64", "uint", "uint64", "string", "float64", "duration", "bytes"}

var kindType = map[string]reflect.Type{
	"bool": reflect.TypeOf(false), "int": reflect.TypeOf(int(0)), "int64": reflect.TypeOf(int64(0)), "uint": reflect.TypeOf(uint(0)), "uint64": reflect.TypeOf(uint64(0)),
	"string": reflect.TypeOf(""), "float64": reflect.TypeOf(float64(0)), "duration": reflect.TypeOf(time.Duration(0)), "bytes": reflect.TypeOf([]byte(nil)),
}

var words = []string{"Alpha", "Beta", "Gamma", "Delta", "Port", "Host", "Max", "Conn", "Time", "Out", "Debug", "Level", "Path", "Root", "Key", "Cert", "Retry", "Count", "Ratio", "Limit",
	"Cache", "Size", "Name", "Mode", "User", "Pass", "Token", "Zone", "Rate", "Burst", "Idle", "Wait", "Proxy", "Addr", "Log", "File", "Db", "Main", "Replica", "Shard"}

// typed value helpers ---------------------------------------------------------

func zero(kind string) any { return reflect.Zero(kindType[kind]).Interface() }

func text(kind string, v any) string {
	switch kind {
	case "bool":
		return strconv.FormatBool(v.(bool))
	case "int":
		return spellInt(int64(v.(int)))
	case "int64":
		return spellInt(v.(int64))
	case "uint":
		return spellUint(uint64(v.(uint)))
	case "uint64":
		return spellUint(v.(uint64))
	case "string":
		return v.(string)
	case "float64":
		return strconv.FormatFloat(v.(float64), 'g', -1, 64)
	case "duration":
		return v.(time.Duration).String()
	case "bytes":
		return base64.StdEncoding.EncodeToString(v.([]byte))
	}
	panic("kind")
}

// spellInt writes an integer the way a person may write it in a tag, a variable or on the command line: integer texts
// are read like Go literals (as the flag package reads them), so 16 may be spelled 16, 0x10, 0o20, 020 or 0b10000. Which
// spelling a value gets depends on the value alone.
func spellInt(v int64) string {
	if v < 0 {
		if v == math.MinInt64 {
			return "-0x8000000000000000"
		}
		return "-" + spellUint(uint64(-v))
	}
	return spellUint(uint64(v))
}

func spellUint(v uint64) string {
	switch v % 7 {
	case 1:
		return "0x" + strconv.FormatUint(v, 16)
	case 2:
		return "0o" + strconv.FormatUint(v, 8)
	case 3:
		return "0" + strconv.FormatUint(v, 8)
	case 4:
		return "0b" + strconv.FormatUint(v, 2)
	case 5:
		if d := strconv.FormatUint(v, 10); len(d) > 3 {
			return d[:len(d)-3] + "_" + d[len(d)-3:]
		}
	}
	return strconv.FormatUint(v, 10)
}

func jsonValue(kind string, v any) any {
	switch kind {
	case "duration":
		return int64(v.(time.Duration))
	case "bytes":
		return base64.StdEncoding.EncodeToString(v.([]byte))
	}
	return v
}

func same(kind string, a, b any) bool {
	switch kind {
	case "float64":
		x, y := a.(float64), b.(float64)
		return (math.IsNaN(x) && math.IsNaN(y)) || (x == y && math.Signbit(x) == math.Signbit(y))
	case "bytes":
		return bytes.Equal(a.([]byte), b.([]byte))
	}
	return a == b
}

func genValue(kind string, forJSON bool, noSep string) *rapid.Generator[any] {
	return rapid.Custom(func(t *rapid.T) any {
		switch kind {
		case "bool":
			return rapid.Bool().Draw(t, "b")
		case "int":
			return int(rapid.OneOf(rapid.SampledFrom([]int64{0, 1, -1, math.MaxInt64, math.MinInt64, 42}), rapid.Int64()).Draw(t, "i"))
		case "int64":
			return rapid.OneOf(rapid.SampledFrom([]int64{0, 1, -1, math.MaxInt64, math.MinInt64}), rapid.Int64()).Draw(t, "i64")
		case "uint":
			return uint(rapid.OneOf(rapid.SampledFrom([]uint64{0, 1, math.MaxUint64, 1 << 63}), rapid.Uint64()).Draw(t, "u"))
		case "uint64":
			return rapid.OneOf(rapid.SampledFrom([]uint64{0, 1, math.MaxUint64, 1 << 63}), rapid.Uint64()).Draw(t, "u64")
		case "string":
			s := rapid.OneOf(
				rapid.SampledFrom([]string{"", "v", "a=b", "-x", "--", "x y", "é", "true", "0", "\"q\"", "a\\b", "\t", "{}", "null", "\xff\xfe", "a'b", "$HOME", "CFG_X=1"}),
				rapid.StringOfN(rapid.RuneFrom(nil, unicode.L, unicode.N, unicode.P, unicode.S, unicode.Zs), 0, 12, -1),
				rapid.Custom(func(t *rapid.T) string {
					return string(rapid.SliceOfN(rapid.ByteRange(1, 255), 0, 10).Draw(t, "rawbytes"))
				}),
				// values made of the punctuation of the carriers themselves - JSON brackets, commas, quotes and comment
				// openers, shell and printf syntax: a value is a value, whatever a lenient reader of the document around it
				// would make of such bytes outside a string (regular expressions and format templates look like this) -
				// round twenty-two
				rapid.Custom(func(t *rapid.T) string {
					pieces := rapid.SliceOfN(rapid.SampledFrom([]string{",", "}", "]", "{", "[", "\"", ":", " ", "\n", "\t", "//", "/*", "*/", "#", ",}", ", ]", ",\n}", "{3,}", "\\u002c", "\\", "${X}", "$(x)", "%s", "%", "a", "1", "null", "true", "'", "`", "\r\n", ";", "="}), 1, 7).Draw(t, "syntaxPieces")
					return strings.Join(pieces, "")
				}),
			).Draw(t, "s")
			for _, c := range noSep {
				s = strings.ReplaceAll(s, string(c), "_")
			}
			if forJSON {
				s = strings.ToValidUTF8(s, "?") // JSON strings cannot carry invalid UTF-8 unchanged
			}
			return s
		case "float64":
			cands := []float64{0, 1, -1, 0.5, 1e308, -1e308, 5e-324, 1e-7, 123456789.125, math.Copysign(0, -1)}
			if !forJSON {
				cands = append(cands, math.NaN(), math.Inf(1), math.Inf(-1))
			}
			f := rapid.OneOf(rapid.SampledFrom(cands), rapid.Float64()).Draw(t, "f")
			if forJSON && (math.IsNaN(f) || math.IsInf(f, 0)) {
				f = 0
			}
			return f
		case "duration":
			return time.Duration(rapid.OneOf(rapid.SampledFrom([]int64{0, 1, -1, int64(time.Second), int64(90 * time.Minute), math.MaxInt64, math.MinInt64, 1500000}), rapid.Int64()).Draw(t, "d"))
		case "bytes":
			b := rapid.SliceOfN(rapid.Byte(), 0, 10).Draw(t, "bytes")
			if len(b) == 0 {
				return []byte(nil)
			}
			return b
		}
		panic("kind")
	})
}

// case description ---------------------------------------------------------------

type mention struct {
	present bool
	empty   bool // the source mentions the field with the empty text
	val     any
}

type field struct {
	goName   string
	group    []string // enclosing nested struct names
	kind     string
	flagName string
	tagName  string // "" = derived from the field name
	pipeTag  bool
	usage    string
	def      mention // tag default
	js       mention
	env      mention
	cli      mention
	cliForm  int
	cliDup   *string // an earlier occurrence with another text
	index    []int
	envName  string
}

func (f *field) mask() int {
	m := 0
	for i, s := range []mention{f.def, f.js, f.env, f.cli} {
		if s.present {
			m |= 1 << i
		}
	}
	return m
}

func (f *field) expected() (any, string) {
	for _, s := range []struct {
		m    mention
		name string
	}{{f.cli, "command line"}, {f.env, "environment"}, {f.js, "JSON"}, {f.def, "default"}} {
		if s.m.present {
			if s.m.empty {
				return zero(f.kind), s.name + " (empty text)"
			}
			return s.m.val, s.name
		}
	}
	return zero(f.kind), "nothing (zero value)"
}

func (f *field) describe() string {
	d := func(m mention) string {
		if !m.present {
			return "-"
		}
		if m.empty {
			return "''"
		}
		return fmt.Sprintf("%q", text(f.kind, m.val))
	}
	return fmt.Sprintf("%s%s(%s flag=-%s) default=%s json=%s env=%s cli=%s", strings.Join(append(append([]string{}, f.group...), ""), "."), f.goName, f.kind, f.flagName, d(f.def), d(f.js), d(f.env), d(f.cli))
}

type scenario struct {
	fields  []*field
	typ     reflect.Type
	shared  bool // two fields share one CFG_* variable
	carrier int  // 0 none needed / file, 1 b64, 2 both (file wins, b64 is a decoy)
	tail    []string
}

func genMention(t *rapid.T, kind string, label string, forJSON bool, noSep string, p int) mention {
	if rapid.IntRange(0, 99).Draw(t, label+"?") >= p {
		return mention{}
	}
	if !forJSON && rapid.IntRange(0, 5).Draw(t, label+"empty") == 0 {
		return mention{present: true, empty: true}
	}
	return mention{present: true, val: genValue(kind, forJSON, noSep).Draw(t, label)}
}

func genScenario(t *rapid.T) *scenario {
	sc := &scenario{}
	perm := rapid.Permutation(words).Draw(t, "words")
	wi := 0
	nextName := func() (string, string) {
		n := rapid.IntRange(1, 2).Draw(t, "nwords")
		ws := perm[wi : wi+n]
		wi += n
		return strings.Join(ws, ""), "CFG_PLACEHOLDER_" + strings.ToUpper(strings.Join(ws, "_"))
	}
	snake := func(name string) string { // the words are known: recover them
		var parts []string
		cur := ""
		for _, r := range name {
			if r >= 'A' && r <= 'Z' && cur != "" {
				parts = append(parts, cur)
				cur = ""
			}
			cur += string(r)
		}
		parts = append(parts, cur)
		return strings.ToUpper(strings.Join(parts, "_"))
	}
	nTop := rapid.IntRange(1, 6).Draw(t, "ntop")
	nNested := rapid.IntRange(0, 2).Draw(t, "nnested")
	type slot struct {
		group []string
	}
	var slots []slot
	for i := 0; i < nTop; i++ {
		slots = append(slots, slot{})
	}
	var nestedNames []string
	for j := 0; j < nNested; j++ {
		nn, _ := nextName()
		nestedNames = append(nestedNames, nn)
		k := rapid.IntRange(1, 3).Draw(t, "nnestedfields")
		for i := 0; i < k; i++ {
			slots = append(slots, slot{group: []string{nn}})
		}
	}
	for i, sl := range slots {
		f := &field{group: sl.group}
		f.goName, _ = nextName()
		f.kind = rapid.SampledFrom(kinds).Draw(t, "kind")
		f.pipeTag = rapid.Bool().Draw(t, "pipe")
		sep := ","
		if f.pipeTag {
			sep = "|"
		}
		switch rapid.IntRange(0, 3).Draw(t, "tagname") {
		case 3:
			// names a program may well choose, and that sit close to the built-in flags: one-letter names (-h for a
			// host, -c, -v), prefixes and near-misses of help and config
			short := []string{"h", "c", "v", "n", "x", "he", "hel", "helper", "conf", "cfg", "configs", "H", "Help", "?"}
			f.tagName = short[(i*5+rapid.IntRange(0, len(short)-1).Draw(t, "short"))%len(short)]
			for _, g := range sc.fields {
				if g.flagName == f.tagName {
					f.tagName = fmt.Sprintf("f%d", i) // no duplicates within a struct
				}
			}
			f.flagName = f.tagName
		case 0:
			f.tagName = ""
			f.flagName = strings.ToLower(f.goName)
		case 1:
			f.tagName = fmt.Sprintf("f%d", i)
			f.flagName = f.tagName
		default:
			f.tagName = strings.ToLower(f.goName) + "-" + strconv.Itoa(i)
			f.flagName = f.tagName
		}
		f.usage = rapid.SampledFrom([]string{"", "usage text", "with, commas | and pipes", "-", "=", ",,,"}).Draw(t, "usage")
		f.def = genMention(t, f.kind, "default", false, sep+"\x00", 60)
		f.js = genMention(t, f.kind, "json", true, "", 50)
		f.env = genMention(t, f.kind, "env", false, "\x00", 50)
		f.cli = genMention(t, f.kind, "cli", false, "\x00", 50)
		if f.def.present && f.def.empty {
			// an empty default is simply an empty default text
		}
		f.cliForm = rapid.IntRange(0, 3).Draw(t, "cliform")
		if f.cli.present && rapid.IntRange(0, 4).Draw(t, "dup") == 0 {
			d := text(f.kind, genValue(f.kind, false, "\x00").Draw(t, "dupval"))
			f.cliDup = &d
		}
		parts := append(append([]string{}, f.group...), f.goName)
		var sn []string
		for _, p := range parts {
			sn = append(sn, snake(p))
		}
		f.envName = "CFG_" + strings.Join(sn, "_")
		sc.fields = append(sc.fields, f)
	}
	// two fields may share their variable: a flat LogLevel next to a nested Log.Level are both CFG_LOG_LEVEL. The
	// variable is then a source for both of them.
	if rapid.IntRange(0, 5).Draw(t, "sharedVariable") == 0 {
		for _, g := range sc.fields {
			if len(g.group) != 1 {
				continue
			}
			i := len(sc.fields)
			f := &field{goName: g.group[0] + g.goName, kind: g.kind, pipeTag: g.pipeTag, env: g.env, envName: g.envName}
			f.tagName = fmt.Sprintf("f%d", i)
			f.flagName = f.tagName
			sep := ","
			if f.pipeTag {
				sep = "|"
			}
			f.def = genMention(t, f.kind, "default", false, sep+"\x00", 60)
			f.js = genMention(t, f.kind, "json", true, "", 50)
			f.cli = genMention(t, f.kind, "cli", false, "\x00", 30)
			f.cliForm = rapid.IntRange(0, 3).Draw(t, "cliform")
			sc.fields = append(sc.fields, f)
			sc.shared = true
			break
		}
	}
	// build the struct type
	mkField := func(f *field) reflect.StructField {
		var tag string
		deftext := ""
		if f.def.present && !f.def.empty {
			deftext = text(f.kind, f.def.val)
		}
		if f.tagName != "" || f.def.present || f.usage != "" {
			sep := ","
			prefix := ""
			if f.pipeTag {
				sep, prefix = "|", "|"
			}
			v := prefix + f.tagName + sep + deftext + sep + f.usage
			if !f.def.present && f.usage == "" {
				v = prefix + f.tagName
			}
			tag = "flag:" + strconv.Quote(v)
		}
		return reflect.StructField{Name: f.goName, Type: kindType[f.kind], Tag: reflect.StructTag(tag)}
	}
	var top []reflect.StructField
	idx := 0
	for _, f := range sc.fields {
		if len(f.group) == 0 {
			f.index = []int{idx}
			idx++
			top = append(top, mkField(f))
		}
	}
	for _, nn := range nestedNames {
		var inner []reflect.StructField
		k := 0
		for _, f := range sc.fields {
			if len(f.group) == 1 && f.group[0] == nn {
				f.index = []int{idx, k}
				k++
				inner = append(inner, mkField(f))
			}
		}
		top = append(top, reflect.StructField{Name: nn, Type: reflect.StructOf(inner)})
		idx++
	}
	// interleave: move nested structs to generated positions would change indices; keep order (top fields first)
	sc.typ = reflect.StructOf(top)
	sc.carrier = rapid.IntRange(0, 2).Draw(t, "carrier")
	sc.tail = rapid.SampledFrom([][]string{nil, {"--"}, {"--", "-x", "rest"}, {"positional", "-f0=1"}, {"-"},
		// positional arguments that look like values: they belong to the program, not to the flag in front of them
		{"false"}, {"0", "1"}, {"f", "x"}, {"true"}, {"FALSE", "-f0=1"}, {"5s"}, {"42"}}).Draw(t, "tail")
	return sc
}

func (sc *scenario) jsonDoc(decoy bool, t *rapid.T) []byte {
	doc := map[string]any{}
	for _, f := range sc.fields {
		var v any
		if decoy {
			// the decoy document mentions every field with some other value: it must never be used
			v = jsonValue(f.kind, genValue(f.kind, true, "").Draw(t, "decoy"))
		} else if f.js.present {
			v = jsonValue(f.kind, f.js.val)
		} else {
			continue
		}
		m := doc
		for _, g := range f.group {
			if _, ok := m[g]; !ok {
				m[g] = map[string]any{}
			}
			m = m[g].(map[string]any)
		}
		m[f.goName] = v
	}
	b, err := json.Marshal(doc)
	if err != nil {
		panic(err)
	}
	return b
}

var caseNo int

func runScenario(t *rapid.T, sc *scenario) string {
	caseNo++
	ptr := reflect.New(sc.typ)
	if rapid.IntRange(0, 2).Draw(t, "structHoldsOldValues") == 0 {
		// the struct is not fresh: it still holds the values of an earlier round (a program that parses its
		// configuration again into the same struct, or that pre-fills it). The outcome is defined by the four sources
		// alone, so the old values must not survive in any field.
		for _, f := range sc.fields {
			old := genValue(f.kind, false, "").Draw(t, "oldValue")
			ptr.Elem().FieldByIndex(f.index).Set(reflect.ValueOf(old).Convert(kindType[f.kind]))
		}
		ev.Label("gen:struct_holds_values_of_an_earlier_round")
	}
	if sc.shared {
		ev.Label("gen:two_fields_share_one_CFG_variable")
	}
	// environment
	var setEnv []string
	defer func() {
		for _, k := range setEnv {
			os.Unsetenv(k)
		}
	}()
	var stale []string
	if rapid.IntRange(0, 2).Draw(t, "environmentChangesBeforeParse") == 0 {
		// the environment the FlagSet is created in is not the one Parse() runs in: a program that builds its FlagSet
		// early (package initialisation) and loads a .env file, or drops variables, before it parses. The sources are
		// read by Parse; what a variable held earlier is not a source.
		for _, f := range sc.fields {
			if rapid.Bool().Draw(t, "staleVariable") {
				os.Setenv(f.envName, text(f.kind, genValue(f.kind, false, "").Draw(t, "staleValue")))
				stale = append(stale, f.envName)
			}
		}
		if rapid.Bool().Draw(t, "staleConfigB64") {
			os.Setenv("CFG_CONFIG_B64", base64.StdEncoding.EncodeToString(sc.jsonDoc(true, t)))
			stale = append(stale, "CFG_CONFIG_B64")
		}
		setEnv = append(setEnv, stale...)
		ev.Label("gen:environment_changed_between_NewFlagSet_and_Parse")
	}
	fs, err := config.NewFlagSet(ptr.Interface())
	if err != nil {
		return "NewFlagSet: " + err.Error()
	}
	for _, k := range stale {
		os.Unsetenv(k)
	}
	for _, f := range sc.fields {
		flg := fs.Lookup(f.flagName)
		if flg == nil {
			return fmt.Sprintf("Lookup(%q) = nil for field %s", f.flagName, f.goName)
		}
		if flg.Env != f.envName {
			return fmt.Sprintf("Lookup(%q).Env = %q, want %q (field %s in group %v)", f.flagName, flg.Env, f.envName, f.goName, f.group)
		}
		if f.env.present {
			v := ""
			if !f.env.empty {
				v = text(f.kind, f.env.val)
			}
			os.Setenv(f.envName, v)
			setEnv = append(setEnv, f.envName)
		}
	}
	anyJSON := false
	for _, f := range sc.fields {
		anyJSON = anyJSON || f.js.present
	}
	var argv []string
	var groups [][]string // one entry per flag occurrence: the built-in -help is inserted between entries
	carrier := sc.carrier
	if anyJSON || carrier == 2 {
		real := sc.jsonDoc(false, t)
		switch carrier {
		case 0, 2:
			p := filepath.Join(tmpDir, fmt.Sprintf("cfg-%d.json", caseNo%8))
			if err := os.WriteFile(p, real, 0o644); err != nil {
				panic(err)
			}
			if rapid.Bool().Draw(t, "cfgform") {
				groups = append(groups, []string{"-config=" + p})
			} else {
				groups = append(groups, []string{"--config", p})
			}
			if carrier == 2 {
				os.Setenv("CFG_CONFIG_B64", base64.StdEncoding.EncodeToString(sc.jsonDoc(true, t)))
				setEnv = append(setEnv, "CFG_CONFIG_B64")
			}
		case 1:
			os.Setenv("CFG_CONFIG_B64", base64.StdEncoding.EncodeToString(real))
			setEnv = append(setEnv, "CFG_CONFIG_B64")
			// -config with the empty text names no file (a script passing "$CONFIG" through): the document comes from
			// the environment as if the flag were absent
			switch rapid.IntRange(0, 5).Draw(t, "emptyConfigFlag") {
			case 0:
				groups = append(groups, []string{"-config="})
				ev.Label("empty_-config_with_CFG_CONFIG_B64")
			case 1:
				groups = append(groups, []string{"--config", ""})
				ev.Label("empty_-config_with_CFG_CONFIG_B64")
			}
		}
	}
	order := rapid.Permutation(sc.fields).Draw(t, "cliorder")
	for _, f := range order {
		if !f.cli.present {
			continue
		}
		v := ""
		if !f.cli.empty {
			v = text(f.kind, f.cli.val)
		}
		emit := func(v string, form int) {
			dashes := "-"
			if form&1 == 1 {
				dashes = "--"
			}
			if f.kind == "bool" && v == "true" && form >= 2 {
				groups = append(groups, []string{dashes + f.flagName})
			} else if form >= 2 && f.kind != "bool" {
				groups = append(groups, []string{dashes + f.flagName, v})
			} else {
				groups = append(groups, []string{dashes + f.flagName + "=" + v})
			}
		}
		if f.cliDup != nil {
			emit(*f.cliDup, (f.cliForm+1)%4)
		}
		emit(v, f.cliForm)
	}
	// the built-in -help flag is an ordinary boolean flag of the command line: it decides ShowUsage() and nothing else,
	// the fields still get their values by the same priority
	wantUsage := false
	for n := rapid.SampledFrom([]int{0, 0, 0, 1, 1, 2}).Draw(t, "helpMentions"); n > 0; n-- {
		h := rapid.SampledFrom([]string{"-help", "--help", "-help=true", "--help=false", "-help=1", "-help=0", "--help=T"}).Draw(t, "help")
		at := rapid.IntRange(0, len(groups)).Draw(t, "helpAt")
		groups = append(groups[:at], append([][]string{{h}}, groups[at:]...)...)
	}
	for _, g := range groups {
		argv = append(argv, g...)
		if h := strings.TrimLeft(g[0], "-"); h == "help" || strings.HasPrefix(h, "help=") {
			wantUsage = !(strings.HasSuffix(h, "=false") || strings.HasSuffix(h, "=0"))
			ev.Label("gen:help_flag_on_command_line")
		}
	}
	argv = append(argv, sc.tail...)
	helpMentioned := false
	for _, a := range argv {
		if h := strings.TrimLeft(a, "-"); h == "help" || strings.HasPrefix(h, "help=") {
			helpMentioned = true
		}
	}
	if !helpMentioned && rapid.IntRange(0, 2).Draw(t, "throughFromCommandLine") == 0 {
		// the entry point a program uses: the command line is os.Args (without -help: that one prints and exits)
		old := os.Args
		os.Args = append([]string{"prog"}, argv...)
		_, err := config.FromCommandLine(ptr.Interface())
		os.Args = old
		if err != nil {
			return fmt.Sprintf("FromCommandLine() with os.Args[1:]=%q returned %v, want nil", argv, err)
		}
		ev.Label("gen:through_FromCommandLine")
	} else if err := fs.Parse(argv); err != nil {
		return fmt.Sprintf("Parse(%q) = %v, want nil", argv, err)
	} else if fs.ShowUsage() != wantUsage {
		return fmt.Sprintf("ShowUsage() = %v after Parse(%q), want %v (the last -help on the command line decides)", fs.ShowUsage(), argv, wantUsage)
	}
	for _, f := range sc.fields {
		got := ptr.Elem().FieldByIndex(f.index).Interface()
		want, from := f.expected()
		if !same(f.kind, got, want) {
			return fmt.Sprintf("field %s = %#v, want %#v from %s\n  argv=%q\n  field: %s", f.goName, got, want, from, argv, f.describe())
		}
	}
	return ""
}

func classify(sc *scenario) (nontrivial bool) {
	for _, f := range sc.fields {
		m := f.mask()
		top := "top"
		if len(f.group) > 0 {
			top = "nested"
		}
		carrier := []string{"file", "b64", "file+decoy"}[sc.carrier]
		ev.Label(fmt.Sprintf("cell:%s/mask=%04b/%s", f.kind, m, top))
		if f.js.present {
			ev.Label("carrier:" + carrier)
		}
		n := 0
		var vals []string
		for _, s := range []mention{f.def, f.js, f.env, f.cli} {
			if s.present {
				n++
				if s.empty {
					vals = append(vals, "")
				} else {
					vals = append(vals, text(f.kind, s.val))
				}
			}
		}
		differ := false
		for _, v := range vals {
			if v != vals[0] {
				differ = true
			}
		}
		if (n >= 2 && differ) || (n >= 1 && !f.cli.present) {
			nontrivial = true
		}
	}
	return
}

func (sc *scenario) render() string {
	var parts []string
	for _, f := range sc.fields {
		parts = append(parts, f.describe())
	}
	return fmt.Sprintf("carrier=%d tail=%q fields: %s", sc.carrier, sc.tail, strings.Join(parts, " ; "))
}

func TestGenerated(t *testing.T) {
	rt.Check(t, 4000, 2000000, func(t *rapid.T) {
		sc := genScenario(t)
		if msg := runScenario(t, sc); msg != "" {
			t.Fatalf("%s\nscenario: %s", msg, sc.render())
		}
		nt := classify(sc)
		ev.Case(nt, ev.Hash(sc.render()), sc.render)
	})
}
