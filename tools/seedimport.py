#!/usr/bin/env python3
"""Verifies a seeded change delivered by a sub-agent and imports it into /verif/seeded/<name>/.

  tools/seedimport.py <PROPERTY_ID> <deliverables dir> [name]

Checks, on a scratch copy of /repo: the patch applies, the repository's tests still pass with it, the
demonstration fails with the change and passes without it. Then copies patch.diff, the demonstration
and notes into seeded/<name>/ and writes meta.json. Running the property's check against it is
./selftest seeded/<name>.
"""
import glob, json, os, shutil, subprocess, sys, tempfile

VERIF = os.path.dirname(os.path.dirname(os.path.abspath(__file__)))
env = dict(os.environ, GOFLAGS='-mod=mod', GOPROXY='off', GOSUMDB='off', GOTOOLCHAIN='local')


def sh(cmd, **kw):
    return subprocess.run(cmd, stdout=subprocess.PIPE, stderr=subprocess.STDOUT, text=True, errors='replace', **kw)


def main():
    pid, out = sys.argv[1], sys.argv[2]
    name = sys.argv[3] if len(sys.argv) > 3 else pid + '-agent'
    patch = os.path.join(out, 'patch.diff')
    demos = [f for f in glob.glob(os.path.join(out, '*')) if f.endswith('_test.go') or (f.endswith('.go') and 'demo' in os.path.basename(f))]
    if not os.path.exists(patch) or not demos:
        print('missing patch.diff or demonstration in', out)
        return 2
    # where does the demo belong? take the package of the first file touched by the patch, unless notes say otherwise
    touched = [l.split(' b/')[-1].strip() for l in open(patch) if l.startswith('diff --git')]
    demo_pkg = os.environ.get('DEMO_PKG') or os.path.dirname(touched[0])
    scratch = tempfile.mkdtemp(prefix='glb-seed.')
    res = {}
    try:
        sh(['rsync', '-a', '--exclude', '.git', '/repo/', scratch + '/'])
        for d in demos:
            shutil.copy(d, os.path.join(scratch, demo_pkg, os.path.basename(d)))
        run_demo = ['go', 'test', '-vet=off', '-count=1', '-timeout', '300s'] + os.environ.get('DEMO_FLAGS', '').split() + ['-run', os.environ.get('DEMO_RUN', 'Seeded|Demo|ZZ'), './' + demo_pkg + '/']
        r0 = sh(run_demo, cwd=scratch, env=env)
        res['demo_without_change'] = 'pass' if r0.returncode == 0 else 'fail'
        r = sh(['patch', '-p1', '--no-backup-if-mismatch', '-i', patch], cwd=scratch)
        if r.returncode != 0:
            print('patch does not apply:\n' + r.stdout)
            return 2
        r1 = sh(run_demo, cwd=scratch, env=env)
        res['demo_with_change'] = 'pass' if r1.returncode == 0 else 'fail'
        for d in demos:
            os.remove(os.path.join(scratch, demo_pkg, os.path.basename(d)))
        rb = None
        for attempt in range(2):
            rb = sh(['go', 'test', '-vet=off', '-count=1', '-timeout', '120s', '-skip', '^TestWaitForInterrupt$', './...'], cwd=scratch, env=env)
            if rb.returncode == 0:
                break
        sh(['pkill', '-x', 'daemon.test'])
        res['repo_tests_with_change'] = 'pass' if rb.returncode == 0 else 'fail'
        print(json.dumps(res))
        if res != {'demo_without_change': 'pass', 'demo_with_change': 'fail', 'repo_tests_with_change': 'pass'}:
            print('NOT CONFIRMED')
            print((r0.stdout[-800:] if res['demo_without_change'] != 'pass' else '') + (r1.stdout[-800:] if res['demo_with_change'] != 'fail' else '') + (rb.stdout[-800:] if res['repo_tests_with_change'] != 'pass' else ''))
            return 1
        dst = os.path.join(VERIF, 'seeded', name)
        os.makedirs(dst, exist_ok=True)
        shutil.copy(patch, os.path.join(dst, 'patch.diff'))
        for d in demos:
            shutil.copy(d, os.path.join(dst, os.path.basename(d) + '.txt' if d.endswith('_test.go') else os.path.basename(d)))
        if os.path.exists(os.path.join(out, 'notes.md')):
            shutil.copy(os.path.join(out, 'notes.md'), os.path.join(dst, 'notes.md'))
        meta = {'property': pid, 'origin': 'independent sub-agent given only the property text and a scratch worktree',
                'demo_package': demo_pkg, 'demo_files': [os.path.basename(d) for d in demos],
                'confirmed': res, 'what_i_ran': ' '.join(run_demo) + ' (without and with the patch) and the repository test suite with the patch, on a scratch copy of /repo',
                'needs_to_manifest': os.environ.get('NEEDS', 'see notes.md')}
        json.dump(meta, open(os.path.join(dst, 'meta.json'), 'w'), indent=1)
        print('imported into', dst)
        return 0
    finally:
        shutil.rmtree(scratch, ignore_errors=True)


if __name__ == '__main__':
    sys.exit(main())
