#!/bin/bash
# Runs every check's quick tier at several seeds (optionally in parallel to load the machine) and reports anything that is not exit 0.
cd "$(dirname "$0")/.."
seeds="${SEEDS:-2 3 7 11 42}"
par="${PAR:-4}"
ids=$(python3 -c "import sys; sys.path.insert(0,'tools'); from props import PROPS; print(' '.join(PROPS))")
out=$(mktemp -d)
for s in $seeds; do
  for id in $ids; do
    echo "$s $id"
  done
done | xargs -P "$par" -L 1 bash -c 'VERIF_SEED=$0 ./check $1 quick > '"$out"'/$1.$0.log 2>&1; echo "seed=$0 $1 rc=$?"' | grep -v "rc=0" 
echo "soak done; logs in $out"
grep -l "VIOLATION\|INCONCLUSIVE" $out/*.log 2>/dev/null | head
