#!/usr/bin/env python3
"""Generates mutants/<name>.patch from mutants/specs.py: each spec is (name, [(file, old, new), ...]).
old must occur exactly once in the file of the pristine /repo tree."""
import os, subprocess, sys, tempfile, shutil
VERIF = os.path.dirname(os.path.dirname(os.path.abspath(__file__)))
sys.path.insert(0, os.path.join(VERIF, 'mutants'))
from specs import SPECS
only = set(sys.argv[1:])
for name, edits in SPECS:
    if only and name not in only and name.split('-')[0] not in only:
        continue
    tmp = tempfile.mkdtemp(prefix='glb-mkmut.')
    try:
        a, b = os.path.join(tmp, 'a'), os.path.join(tmp, 'b')
        files = sorted(set(e[0] for e in edits))
        for f in files:
            for root in (a, b):
                os.makedirs(os.path.dirname(os.path.join(root, f)), exist_ok=True)
                shutil.copy(os.path.join('/repo', f), os.path.join(root, f))
        for f, old, new in edits:
            p = os.path.join(b, f)
            s = open(p).read()
            if s.count(old) != 1:
                print('%s: pattern occurs %d times in %s: %r' % (name, s.count(old), f, old[:60]))
                sys.exit(1)
            open(p, 'w').write(s.replace(old, new))
        out = ''
        for f in files:
            out += subprocess.run(['diff', '-u', '--label', 'a/' + f, '--label', 'b/' + f, os.path.join('a', f), os.path.join('b', f)],
                                  cwd=tmp, stdout=subprocess.PIPE, text=True).stdout
        open(os.path.join(VERIF, 'mutants', name + '.patch'), 'w').write(out)
        print('wrote', name)
    finally:
        shutil.rmtree(tmp)
