P('C07', shards=16, level='fault_enumeration',
  technique='fault injection at enumerated protocol points (six hook points x lane states x cancel kind) combined with rapid-generated loads, inside a testing/synctest bubble whose deadlock and goroutine-leak detection make "Wait returns" and "nothing left behind" deterministic checks',
  text='The cancel (cancel function or virtual-time deadline) is injected at every enumerated point: one lane goroutine or producer parked at Q1/Q2/Q3/W1/W2/P1 x own worker busy/idle x other workers busy/idle x buffer empty/non-empty x gates opened before/after Wait(), '
       'each under generated loads and sizes, plus freely generated programs. After the cancel every new PushTask must return exactly ctx.Err() without enqueuing, blocked producers must return, Wait() must return once running tasks finish '
       '(a bubble deadlock otherwise), the bubble must end with no goroutine left, and after Wait() no start counter may change. Fault enumeration over the listed points, not proof.',
  note='Injection granularity is the six hook points plus all quiescent states; the runtime select is atomic from this vantage point. Trusts testing/synctest for deadlock and leak detection.',
  design='3/C07')
