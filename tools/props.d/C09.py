P('C09', shards=16,
  technique='property-based testing (rapid) over generated struct types (reflect.StructOf) x per-field source masks; oracle: round trip by construction of typed values through the priority lattice',
  text='For generated struct types (all nine field kinds, nested structs, both tag syntaxes, empty tags) every field independently gets a subset of the four sources (tag default, JSON via -config file or CFG_CONFIG_B64 or both, '
       'CFG_* environment variable, command-line flag in all spellings incl. repeats) with typed values (extremes, NaN/Inf, arbitrary strings, empty text); after Parse the field must hold the value of the highest-priority mentioning source, '
       'and Lookup(name).Env must be the documented CFG_ name. Positional tails include value-looking tokens (false, 0, 5s). In a third of the cases the struct still holds arbitrary values of an earlier round. The built-in -help flag is mentioned on a third of the command lines (all spellings, any position, repeated): it must decide ShowUsage() and nothing else. Evidence carries the coverage matrix kind x source mask x {top,nested}. Exploration, not proof.',
  note='Trusts the canonical formatters (strconv, Duration.String, base64) as inverse of the documented parsers; base-prefixed numerals are not generated.',
  design='3/C09')
