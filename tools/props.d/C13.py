P('C13', shards=16, fuzz=[('FuzzTextLine', 90)],
  technique='property-based testing (rapid attribute-tree / chain generators with hostile keys and group names) + exhaustive short strings / Unicode scalars + native fuzzing; oracle: independent key=value tokenizer (strconv.QuotedPrefix/Unquote) and a value-text model',
  text='Generated records (hostile messages, keys, group names and values: spaces, =, quotes, backslashes, controls, Unicode spaces, zero-width and non-printing runes, invalid UTF-8, empty; TextMarshaler ok/failing, error, []byte, AnsiString, '
       'LogValuer, nested/inline groups, With/WithGroup chains) are written by the real Text handler; the single written line must be consumed completely by an independent tokenizer as space-separated key=value tokens (bare or Go-quoted) and the unquoted '
       'tokens must equal time, level, source file:line, msg and every leaf\'s dotted path and value, in order. Every 1- and 2-byte string and (thorough) every Unicode scalar is checked as message, key, value and group name. Exploration, not proof.',
  note='Trusts strconv.QuotedPrefix/Unquote and the tokenizer (about 70 lines); the rendering of composite Go values (maps, structs, nil, Marshalers) is accepted as any single token.',
  design='3/C13')
