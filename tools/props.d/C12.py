P('C12', shards=16, race=True,
  passes=[{'race': True}, {'race': True, 'env': {'GOMAXPROCS': 2}, 'tiers': ['thorough']}, {'race': True, 'env': {'GOMAXPROCS': 4}, 'tiers': ['thorough']}],
  technique='property-based concurrency testing (rapid-generated writer scripts and reader loops around the 256-entry switch) with in-line reader assertions and a final comparison with the set-of-prefixes model, under the race detector with a GOMAXPROCS sweep',
  text='Generated scenarios preload the filter close to its 256-entry list limit, then run W writers (disjoint ranges, add/remove scripts, optional 0.0.0.0/0 toggling) against R readers so that the list-to-map migration happens while lookups are in flight. '
       'Readers assert that addresses of always-present ranges are always contained and never-present addresses never are; after the join the filter must equal the model applied to each writer\'s script (boundary probes, 4- and 16-byte). -race must stay silent, nothing may panic. '
       'Writers publish a sequence number around every update so that readers can assert the state of any range that was stable during their lookup, every writer reads its own writes, and TestSwitchHammer repeats the one-off list-to-maps switch thousands of times under hammering readers. Exploration of sampled schedules, not proof.',
  note='Real Go scheduler: interleavings are sampled; the migration window is short, so a torn migration is caught with high probability per run rather than certainly (measured on the mutants).',
  design='3/C12')
