P('C10', shards=16, fuzz=[('FuzzArgv', 60)],
  technique='property-based differential testing against a reference argv reader written from the documented grammar (rapid token-grammar generator) + native fuzzing of NUL-separated vectors',
  text='Argument vectors generated from a token grammar (all four flag spellings, bool flags, repeats, flag-looking values, --, near-misses such as - --- -= -x= --=v, unknown names, missing values, '
       'unparsable values per type, -config with existing/missing/invalid files, arbitrary byte tokens) are parsed by a fresh FlagSet over two struct shapes; Parse must never panic, must fail exactly when '
       'an independent 40-line reference reader rejects the vector, and on success Args(), ShowUsage() and every field value must equal the model. Exploration, not proof.',
  note='Values include quoted texts (as strings: verbatim; as numbers or booleans: errors). One flag token in twelve is a case variant of a defined name (undefined). A third of the vectors run with CFG_* environment variables set for some flags: a flag on the command line keeps its command-line text, the environment only counts for flags the vector leaves alone. Trusts the reference reader and strconv/time/base64 as the definition of "parsable text"; silent on Args()/field values after an error.',
  design='3/C10')
