P('C14', shards=16,
  passes=[{'race': True, 'env': {'VERIF_SCALE': '0.2'}, 'tiers': ['thorough']}, {'race': False, 'tiers': ['thorough']}, {'race': True, 'tiers': ['quick']}, {'race': False, 'env': {'GODEBUG': 'panicnil=1', 'VERIF_SCALE': '0.5'}, 'run': '^TestScenarios$'}],
  technique='property-based testing of panic-heavy scenario programs with concurrent Status() pollers inside a testing/synctest bubble, under the race detector; oracle: start counters, LastPanic membership, PendingTask bounds and exactness at rest',
  text='Generated programs release panicking tasks with values of seven dynamic types together on several workers (one gate), poll Status() from concurrent goroutines and build stable states; every accepted task must still start exactly once, '
       'LastPanic at quiescence must be one of the raised values (nil iff none), every snapshot must satisfy 0 <= PendingTask <= laneSize x (queueSize+1), PendingTask must equal accepted - started at rest, and the race detector must stay silent on lane code. TestStableStates builds the stable states directly (all workers pinned, k tasks queued) for lane sizes 1..65. Exploration, not proof.',
  note='Panic values include nil and context errors; an extra pass runs under GODEBUG=panicnil=1. Data races are detected only on executed paths; the Go scheduler orders runnable goroutines inside the bubble.',
  design='3/C14')
