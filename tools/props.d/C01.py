P('C01', shards=16, fuzz=[('FuzzJSONLine', 90)],
  technique='property-based testing (rapid attribute-tree and derivation-chain generators) + exhaustive enumeration of short strings / Unicode scalars + native fuzzing; oracle: third-party round trip through encoding/json into an ordered tree matched against an independent expectation model',
  text='Generated records (hostile messages/keys/values incl. invalid UTF-8 and 70 KiB strings, all value kinds, keyed/inline/empty groups, LogValuers, With/WithGroup chains, five levels, addSource on/off) are written by the real JSON handler; '
       'each must be exactly one Write of one newline-terminated valid-UTF-8 line that the encoding/json decoder reads as one object whose ordered members equal an independent model (time, level, source file:line, msg, nested attributes, '
       'strings with U+FFFD substitution, exact integers, reference encodings for Marshalers/maps/structs, error strings for unencodable values). Every 1- and 2-byte string and (thorough) every Unicode scalar is checked as message, key and value. Exploration, not proof.',
  note='Trusts encoding/json as the JSON parser and reference encoder, and the expectation model (about 300 lines). Rendering of recursively empty keyed groups (omitted or {}) is accepted either way.',
  design='3/C01')
