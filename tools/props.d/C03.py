P('C03', shards=16,
  passes=[{'race': False, 'run': '^(TestTreeHistories|TestWithEqualsCallSite|TestWithRawArgsEqualsCallSite|TestRegression)$'}, {'race': True, 'run': '^(TestConcurrentDerive|TestRegression)$'}],
  technique='model-based stateful property testing (rapid state machine over derivation trees; oracle: isolated replay of the node\'s own chain) + metamorphic relation With(a).Log(b) == Log(a,b) + concurrent derivation under the race detector',
  text='For each of the three handlers, generated derivation-tree histories (with / withGroup / log on arbitrary nodes, several children per attribute-carrying parent, older siblings logging after younger ones were derived, every node logging again at the end) '
       'are run on one shared sink; every written line must equal, modulo the masked time field, the line of a logger built alone from a fresh root by replaying only that node\'s chain. With(a).Log(b) must equal Log(a,b) inside any WithGroup context, also for raw argument lists as a caller may write them (a key followed by an Attr, ready-made Attrs, bare values, dangling keys, nil). '
       'K goroutines meeting at a barrier and deriving at the same time from each of up to 48 fresh non-root parents (the first derivation from a handler is raced again and again), then logging concurrently, are checked the same way under -race. Exploration, not proof.',
  note='Trusts that a fresh root replay defines the intended line (faithfulness of that line is C01/C13); concurrent interleavings are sampled by the Go scheduler, not enumerated.',
  design='3/C03')
