P('C11', shards=16, fuzz=[('FuzzHistory', 90)],
  technique='model-based stateful property testing (rapid state machine vs a set-of-prefixes reference model) + native fuzzing of byte-decoded histories',
  text='Generated Add/Remove/bulk-add/invalid-argument histories (a third of them preloaded to sit at the 256-entry list-to-map switch with removed slots) run against the real filter and a '
       'set-of-prefixes model; after every step boundary addresses (first, last, outside neighbours) of touched and sampled prefixes and random addresses are probed in 4-byte and 16-byte form, '
       'and the full probe set at the end. Bulk removals (present, already removed and never-present ranges, often more removals than ranges) mirror the bulk adds. Exploration, not proof.',
  note='TestManyRangesOfOneLength: 2^16+1 or 2^17+1 ranges of one prefix length (16..32) on one filter, probed around 256, 65536 and 131072 live ranges on the way up and down. Probes include 16-byte addresses that are not IPv4-mapped and slices of odd lengths. Arguments must be unchanged after every call. Trusts the 15-line reference model; real IPv6 addresses as Contains arguments and the mixed form (16-byte IP with 4-byte mask) may be rejected with the sentinel (then nothing changes) or accepted (then it is the range it spells) - both are generated and judged that way.',
  design='3/C11')
