P('C04', shards=16, fuzz=[('FuzzDispatch', 90)],
  technique='property-based differential testing against a reference router (candidate-set filtering over the flat route list) + exhaustive small-scope enumeration of tables x paths + native fuzzing',
  text='Generated route tables (literals, :params, *, repeated/trailing slashes, all methods) are registered on the real Mux; every generated request (arbitrary path strings incl. "", "*", // runs, '
       'trailing slashes, :x and * segments, unknown/empty methods) must invoke exactly one handler, never panic, and select the route and bindings of an independent reference router written from the '
       'documented precedence. All tables of <= 3 routes over a small alphabet x all paths of <= 4 segments are enumerated completely in the thorough tier. The segment pools contain the words the trie uses internally (\':param\', \':any\', method tags) and a quarter of the requests carry an alternative percent-encoded spelling of their path in URL.RawPath. Exploration, not proof.',
  note='Trusts the reference router (about 100 lines). Tables containing registrations that panic are out of scope; for paths without a leading slash only "exactly one handler, no panic" is asserted.',
  design='3/C04')
