P('C06', shards=16,
  technique='property-based testing of generated scenario programs inside a testing/synctest bubble (virtual clock, exact quiescence, hook-driven parking of one goroutine at a protocol step); oracle: per-task start counters and a quiescence invariant',
  text='Generated scenario programs (1..4 lanes, queueSize 0..3, inline and concurrent producers, instant / gated / sleeping / panicking tasks, pushes timing out against full lanes in virtual time, one lane goroutine parked at a generated protocol step, '
       'cancel by function or deadline) run against the real TaskLane inside a synctest bubble. Start() counters must never exceed 1 and stay 0 for rejected tasks; at every quiescent point with a live context nothing accepted may wait while a worker is idle, '
       'and once all gates are open and virtual time has advanced every accepted task has been started exactly once ("eventually" becomes a safety check with no wall-clock timeout). Exploration, not proof.',
  note='The Go scheduler still orders runnable goroutines inside the bubble; the harness owns the clock, quiescence and - via six build-tag-guarded hook points - where one goroutine is parked. Steps inside the runtime select are atomic from this vantage point.',
  design='3/C06')
