P('C16', shards=16,
  passes=[{'race': False, 'run': '^(TestRegression|TestExhaustive|TestGenerated)$'}, {'race': True, 'run': '^TestConcurrentCallers$'}], fuzz=[('FuzzEscape', 60)],
  technique='property-based testing (rapid) + exhaustive enumeration over the shell metacharacters + native fuzzing; oracles: POSIX word-reader model and differential runs through real dash and bash',
  text='Every generated string is escaped by both functions; an independent reader of POSIX quoting must see exactly one literal word with the input as value, '
       'and the real dash and bash must receive exactly one argument equal to the input (batched scripts, mismatches bisected to one input). '
       'All strings up to length 5 over the 15 special symbols are enumerated completely; random non-NUL byte strings up to 200 bytes are sampled. Results are compared again after later calls and from concurrent callers (race pass): a returned string must stay valid. Exploration, not proof.',
  note='Hostile pieces include characters usable as in-band markers (U+FFFF etc.). A quarter of the cases change SHELL, LANG, LC_ALL, HOME, IFS or TERM first: the word is a function of the string alone. Trusts the word-reader model (about 80 lines), dash 0.5 / bash 5 as installed with LC_ALL=C, and that printf %s\\0 reports arguments faithfully.',
  design='3/C16')
