P('C17', shards=16,
  passes=[{'race': False, 'run': '^(TestRegression|TestExhaustive|TestGenerated)$'}, {'race': True, 'run': '^TestConcurrentCallers$'}], fuzz=[('FuzzResolve', 60)],
  technique='property-based testing (rapid) + exhaustive small-scope enumeration + native coverage-guided fuzzing; oracle: lexical containment and join identity',
  text='Every generated (base, url path) pair is resolved by the real ResolveUrlPath and judged by an independent lexical '
       'containment oracle and the join identity; all url paths of length <= 8 over {/ . a \\} x 14 bases are enumerated completely, '
       'millions of random hostile paths and bases are sampled, and a native fuzz campaign searches for more. A race pass runs concurrent callers. Exploration, not proof.',
  note='A result is kept across one to four later calls and compared with a copy made at the time. URL paths shaped like scheme://host/... are among the dot-segment-free paths. Climbing prefixes followed by long ordinary remainders (30..4097 bytes, around every power of two) and long base segments. A quarter of the cases change or unset HOME, PWD, SHELL or TMPDIR first. Bases include names a shell would expand (~, ~/public, $HOME/pub). Bases and names that really exist on disk, with symlinks out of and into the base, are among the inputs (the function is lexical). URL paths contain every byte value including NUL. Trusts the harness oracle (lexical resolver of ~20 lines) and POSIX path semantics; symlink resolution is outside the statement.',
  design='3/C17')
