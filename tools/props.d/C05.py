P('C05', shards=16,
  passes=[{'race': False, 'run': '^(TestSequential|TestRegression)$', 'env': {'GOMAXPROCS': 1}}, {'race': True, 'run': '^TestWithBursts$'}],
  technique='model-based stateful property testing (rapid state machine over one long-lived Mux; oracle: same request on a fresh Mux + reference router; ID uniqueness invariant), concurrent bursts under the race detector',
  text='Generated histories of registrations, matching / non-matching / panicking requests and concurrent bursts run on one long-lived Mux (single goroutine, so sync.Pool hands the same Store back; reuse is observed by pointer identity). '
       'What the relay (before/after), the route handler and the no-route handler see - Store.I, every parameter lookup for every name of the table, RouteParamAny, the initial status, the request ID - must equal the same request on a fresh Mux '
       'and the reference router; IDs must be constant within and unique across requests; no accessor may panic. Bursts run under -race. Exploration, not proof.',
  note='A sixth of the sequential requests forward another request through the Mux with Store.W as the writer (both judged); a second Mux serves requests in between; the no-route handler may be replaced between requests; a pattern may be registered again under another method after requests were served; handlers may replace Store.W and Store.P by objects of their own. Trusts the reference router and the fresh-Mux comparison; concurrent interleavings are sampled by the Go scheduler, not enumerated.',
  design='3/C05')
