P('C19', shards=16,
  technique='property-based testing of generated write scripts x wrapped-writer fault scripts x consumer behaviours inside a testing/synctest bubble (deterministic placement of the consumer, deadlock detection); oracle: prefix-sum model',
  text='Generated scripts of Write/WriteString calls (0..64 KiB) run against a wrapped writer that writes fully, short, or fails after k bytes (with and without io.StringWriter) while a consumer is absent, receiving before chosen writes, starting late or draining greedily; '
       'synctest.Wait() places the consumer deterministically in its receive before the write. Size() must equal the sum of the reported counts after every call, (n, err) and the bytes must pass through unchanged, received values must be non-decreasing prefix sums, '
       'a Write with nobody receiving must return (the bubble reports a blocked Write as a deadlock), and after Close() the last received value must be the final total with the channel closed. TestConcurrentConsumer adds a consumer receiving in a tight loop on its own goroutine during thousands of writes. Exploration, not proof.',
  note='Trusts testing/synctest for quiescence and deadlock detection and the 10-line prefix-sum model; silent on whether a receiving consumer must get every single update.',
  design='3/C19')
