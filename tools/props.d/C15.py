P('C15', shards=16, race=True,
  technique='property-based testing (rapid-generated handler behaviours, panic values, request batches with up to 16 in flight) with a behavioural model of the response and record parsing per log handler (JSON decoder / key=value tokenizer / positional), under the race detector',
  text='Generated batches of requests run through httpd.Mux + Logger.Relay: handlers write any status 200..599 or nothing, with or without body, then return or panic with a string, error, int, struct, typed nil pointer or panic(nil), before or after writing; matched and unmatched routes; '
       'IPv4 and bracketed IPv6 client addresses; all three log handlers and all thresholds; sequential and up to 16 requests in flight. No panic may escape ServeHTTP, the recorder must see 500 iff the handler panicked before writing, and the parsed records, grouped by request ID, must be '
       'exactly one REQ_BEG and one REQ_END (method, URI, client IP, the ID the handler saw, END code = status on the wire, BEG before END) plus exactly one Error record with the panic value for a panicking handler. A real net/http server round trip is included. Exploration, not proof.',
  note='Trusts the response model (10 lines) and the record parsers shared with C01/C13; concurrent interleavings are sampled by the Go scheduler.',
  design='3/C15')
