P('C02', shards=16, race=True,
  passes=[{'race': True}, {'race': True, 'env': {'GOMAXPROCS': 2}, 'tiers': ['thorough']}, {'race': True, 'env': {'GOMAXPROCS': 1}, 'tiers': ['thorough']}, {'race': True, 'env': {'GOMAXPROCS': 4}, 'tiers': ['thorough']}],
  technique='property-based concurrency testing (rapid-generated multi-goroutine logging scripts against a monitoring destination that owns the Write window) + metamorphic oracle "logged concurrently == logged alone", under the race detector with a GOMAXPROCS sweep',
  text='Generated scenarios (handler kind x threshold x colour x addSource; 2..8 goroutines logging through the root logger, up to five pre-derived shared loggers (each one to three derivation steps below another, so nested groups and attributes below groups are common) and loggers derived during the run; line sizes up to 70 KiB) write into a destination that yields/spins inside Write '
       'and monitors an in-flight counter and payload stability. Afterwards: Write count = enabled records, every payload carries exactly one record id, every enabled id exactly once, no disabled id, and each payload equals (time masked) the same record logged alone '
       'through a fresh handler with the same chain. Runs under -race; thorough sweeps GOMAXPROCS 1/2/4/16. Exploration of sampled schedules, not proof.',
  note='Schedules are produced by the real Go scheduler (amplified by the yielding destination), so interleavings are sampled, not enumerated; faithfulness of the line itself is C01/C13.',
  design='3/C02')
