P('C08', shards=16,
  technique='property-based testing of pinned-worker scenario programs inside a testing/synctest bubble; oracle: concurrency gauge bound and a quiescence invariant (nothing accepted waits while a worker is idle)',
  text='Generated programs with laneSize >= 2 pin 1..laneSize-1 workers with gated tasks and push most work to the pinned lanes (often everything to one lane). A gauge inside Start() must never exceed laneSize; at every quiescent point with a live context '
       'no accepted task may wait while fewer than laneSize workers are busy, so head-of-line blocking behind a pinned worker shows up as a violated invariant, without any wall-clock timeout. Exploration, not proof.',
  note='One program in six has a second TaskLane on the same context (its idle workers must not run the first lane\'s tasks). TestNeverCancelledContext (real clock): lanes on context.Background(), TODO, WithoutCancel and an own context with a nil Done channel share work like any other. Pushed values include the nil Task. Latency is not measured, only the outcome at quiescence; the Go scheduler orders runnable goroutines inside the bubble.',
  design='3/C08')
