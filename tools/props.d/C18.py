P('C18', shards=16,
  technique='property-based testing over generated file-system scenarios plus complete enumeration of operation x source kind x destination kind (aliasing, failing steps, cross-device via a real second file system); oracle: before/after content snapshots',
  text='Every combination of {CopyFile, MoveFile} x source (regular, through a symlink, missing) x destination (missing, existing shorter/longer/same length, same path, ./-spelling, symlink or hard link to the source, directory, missing parent, parent is a file, '
       'another file system incl. an existing file and a symlink pointing back to the source) is built in a fresh directory for sizes from 0 to several MiB with seeded content, plus rapid-generated scenarios with arbitrary sizes. After the call the snapshot taken before decides: '
       'nil => destination bytes = snapshot (CopyFile: source intact, n = length; MoveFile: source path gone unless it is the destination), error => source intact; never a panic. Exploration, not proof.',
  note='Needs a second file system for the EXDEV class (/dev/shm here; otherwise that class is reported as not explored, never as an alarm). Mid-copy I/O errors are not injected.',
  design='3/C18')
