#!/usr/bin/env python3
"""Regenerates /verif/MANIFEST.json from tools/props.py (single source of truth)."""
import json, os, sys
sys.path.insert(0, os.path.dirname(os.path.abspath(__file__)))
from props import PROPS
VERIF = os.path.dirname(os.path.dirname(os.path.abspath(__file__)))
allids = [json.loads(l)['id'] for l in open(os.path.join(VERIF, 'properties.jsonl')) if l.strip()]
extra = {}
p = os.path.join(VERIF, 'tools', 'manifest_extra.json')
if os.path.exists(p):
    extra = json.load(open(p))
checks = []
for pid in allids:
    if pid not in PROPS:
        continue
    c = PROPS[pid]
    checks.append({
        'property_id': pid,
        'quick_cmd': './check %s quick' % pid,
        'thorough_cmd': './check %s thorough' % pid,
        'evidence_file': 'evidence/%s.json' % pid,
        'replay_cmd_template': './check %s --replay {path}' % pid,
        'engine': 'harness',
        'level_claimed': {'category': c.get('level', 'exploration'), 'text': c['text'], 'design_ref': 'DESIGN.md section ' + c.get('design', '3')},
        'level_note': c['note'],
        'technique': c['technique'],
    })
na = [{'property_id': pid, 'reason': extra.get('not_applicable', {}).get(pid, 'check not built yet in this session; planned per DESIGN.md section 3')}
      for pid in allids if pid not in PROPS]
m = {
    'version': 1,
    'setup_cmd': './check --setup',
    'hooks': {
        'guard': 'verif',
        'enable': 'go test -tags verif (the driver always passes -tags verif)',
        'baseline_off_cmd': "cd /repo && go test -mod=mod -vet=off -count=1 -timeout 25m ./...",
        'source_commits': extra.get('hook_commits', []),
        'add_only': True,
    },
    'engines': [{'name': 'harness', 'path': 'harness/', 'serves_properties': [c['property_id'] for c in checks],
                 'kind_free_text': 'Go test packages (one per property) using pgregory.net/rapid v1.3.0 state machines/generators, exhaustive small-scope enumerators, testing/synctest bubbles, the race detector and native go fuzzing; driven by ./check'}],
    'checks': checks,
    'notes': extra.get('notes', 'All checks are property-based testing / fuzzing against explicit oracles; see DESIGN.md.'),
    'not_applicable': na,
}
json.dump(m, open(os.path.join(VERIF, 'MANIFEST.json'), 'w'), indent=1)
print('wrote MANIFEST.json with %d checks, %d not_applicable' % (len(checks), len(na)))
