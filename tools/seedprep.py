#!/usr/bin/env python3
"""Prepares a round of seeded changes: tools/seedprep.py <round> [IDs...]
For each property: a detached worktree of /repo at /tmp/seed<round>-<ID>, an output directory
/tmp/seed<round>-<ID>-out with PROPERTY.txt (title, statement, quantifier and one sentence per idea already taken,
from the metas under seeded/) and PROMPT.txt (seeded/PROMPT.template.txt instantiated)."""
import glob, json, os, subprocess, sys
VERIF = os.path.dirname(os.path.dirname(os.path.abspath(__file__)))
rnd = sys.argv[1]
only = set(sys.argv[2:])
tmpl = open(os.path.join(VERIF, 'seeded', 'PROMPT.template.txt')).read()
for l in open(os.path.join(VERIF, 'properties.jsonl')):
    p = json.loads(l)
    pid = p['id']
    if only and pid not in only:
        continue
    wt, out = '/tmp/seed%s-%s' % (rnd, pid), '/tmp/seed%s-%s-out' % (rnd, pid)
    subprocess.run(['git', '-C', '/repo', 'worktree', 'add', '--detach', wt, 'HEAD'], check=True, stdout=subprocess.DEVNULL, stderr=subprocess.DEVNULL)
    os.makedirs(out, exist_ok=True)
    taken = []
    for m in sorted(glob.glob(os.path.join(VERIF, 'seeded', pid + '-agent*', 'meta.json'))):
        taken.append(json.load(open(m)).get('needs_to_manifest', ''))
    txt = '%s - %s\n\nStatement: %s\n\nQuantifier: %s\n\n' % (pid, p['title'], p['statement'], p['quantifier']['text'])
    txt += 'Already taken (do NOT repeat these ideas or close variants of them; pick a different site or a different clause of the statement):\n'
    for i, t in enumerate(taken):
        txt += ' %d. %s\n' % (i + 1, t)
    open(os.path.join(out, 'PROPERTY.txt'), 'w').write(txt)
    open(os.path.join(out, 'PROMPT.txt'), 'w').write(tmpl.replace('__WT__', wt).replace('__OUT__', out))
    print(pid, wt, out, len(taken), 'ideas taken')
