#!/bin/sh
# tools/seedone.sh <round> <ID>: import a sub-agent's deliverables for one property and run the quick check against it
export GOFLAGS=-mod=mod GOPROXY=off GOSUMDB=off GOTOOLCHAIN=local
r=$1; id=$2
cd "$(dirname "$0")/.."
case $id in
  C01|C02|C03|C13|C15) : "${DEMO_PKG:=logger}"; export DEMO_PKG;;
  C20) : "${DEMO_PKG:=daemon}"; export DEMO_PKG;;
esac
tools/seedimport.py $id /tmp/seed$r-$id-out $id-agent$r 2>&1 | tail -4 || exit 1
./selftest --no-baseline seeded/$id-agent$r 2>&1 | tail -${TAIL:-6}
