# One entry per claimed property: how the driver runs it, and the texts that go into MANIFEST.json.
PROPS = {}


def P(pid, **kw):
    kw.setdefault('pkg', pid.lower())
    kw.setdefault('level', 'exploration')
    PROPS[pid] = kw


P('C17', shards=8, fuzz=[('FuzzResolve', 30)],
  technique='property-based testing (rapid) + exhaustive small-scope enumeration + native coverage-guided fuzzing; oracle: lexical containment and join identity',
  text='Every generated (base, url path) pair is resolved by the real ResolveUrlPath and judged by an independent lexical '
       'containment oracle and the join identity; all url paths of length <= 8 over {/ . a \\} x 14 bases are enumerated completely, '
       'millions of random hostile paths and bases are sampled, and a native fuzz campaign searches for more. Exploration, not proof.',
  note='Trusts the harness oracle (lexical resolver of ~20 lines) and POSIX path semantics; symlink resolution is outside the statement.',
  design='3/C17')

P('C16', shards=8, fuzz=[('FuzzEscape', 30)],
  technique='property-based testing (rapid) + exhaustive enumeration over the shell metacharacters + native fuzzing; oracles: POSIX word-reader model and differential runs through real dash and bash',
  text='Every generated string is escaped by both functions; an independent reader of POSIX quoting must see exactly one literal word with the input as value, '
       'and the real dash and bash must receive exactly one argument equal to the input (batched scripts, mismatches bisected to one input). '
       'All strings up to length 5 over the 15 special symbols are enumerated completely; random non-NUL byte strings up to 200 bytes are sampled. Exploration, not proof.',
  note='Trusts the word-reader model (about 80 lines), dash 0.5 / bash 5 as installed with LC_ALL=C, and that printf %s\\0 reports arguments faithfully.',
  design='3/C16')

P('C11', shards=16, fuzz=[('FuzzHistory', 45)],
  technique='model-based stateful property testing (rapid state machine vs a set-of-prefixes reference model) + native fuzzing of byte-decoded histories',
  text='Generated Add/Remove/bulk-add/invalid-argument histories (a third of them preloaded to sit at the 256-entry list-to-map switch with removed slots) run against the real filter and a '
       'set-of-prefixes model; after every step boundary addresses (first, last, outside neighbours) of touched and sampled prefixes and random addresses are probed in 4-byte and 16-byte form, '
       'and the full probe set at the end. Exploration, not proof.',
  note='Trusts the 15-line reference model; real IPv6 addresses as Contains arguments and the mixed form (16-byte IP with 4-byte mask) are outside the statement.',
  design='3/C11')

P('C04', shards=16, fuzz=[('FuzzDispatch', 45)],
  technique='property-based differential testing against a reference router (candidate-set filtering over the flat route list) + exhaustive small-scope enumeration of tables x paths + native fuzzing',
  text='Generated route tables (literals, :params, *, repeated/trailing slashes, all methods) are registered on the real Mux; every generated request (arbitrary path strings incl. "", "*", // runs, '
       'trailing slashes, :x and * segments, unknown/empty methods) must invoke exactly one handler, never panic, and select the route and bindings of an independent reference router written from the '
       'documented precedence. All tables of <= 3 routes over a small alphabet x all paths of <= 4 segments are enumerated completely in the thorough tier. Exploration, not proof.',
  note='Trusts the reference router (about 100 lines). Tables containing registrations that panic are out of scope; for paths without a leading slash only "exactly one handler, no panic" is asserted.',
  design='3/C04')

P('C05', shards=16,
  passes=[{'race': False, 'run': '^(TestSequential|TestRegression)$', 'env': {'GOMAXPROCS': 1}}, {'race': True, 'run': '^TestWithBursts$'}],
  technique='model-based stateful property testing (rapid state machine over one long-lived Mux; oracle: same request on a fresh Mux + reference router; ID uniqueness invariant), concurrent bursts under the race detector',
  text='Generated histories of registrations, matching / non-matching / panicking requests and concurrent bursts run on one long-lived Mux (single goroutine, so sync.Pool hands the same Store back; reuse is observed by pointer identity). '
       'What the relay (before/after), the route handler and the no-route handler see - Store.I, every parameter lookup for every name of the table, RouteParamAny, the initial status, the request ID - must equal the same request on a fresh Mux '
       'and the reference router; IDs must be constant within and unique across requests; no accessor may panic. Bursts run under -race. Exploration, not proof.',
  note='Trusts the reference router and the fresh-Mux comparison; concurrent interleavings are sampled by the Go scheduler, not enumerated.',
  design='3/C05')
