# One entry per claimed property (tools/props.d/<ID>.py): how the driver runs it, and the texts that go into MANIFEST.json.
import glob, os
PROPS = {}


def P(pid, **kw):
    kw.setdefault('pkg', pid.lower())
    kw.setdefault('level', 'exploration')
    PROPS[pid] = kw


for _f in sorted(glob.glob(os.path.join(os.path.dirname(os.path.abspath(__file__)), 'props.d', 'C*.py'))):
    exec(compile(open(_f).read(), _f, 'exec'), {'P': P})
