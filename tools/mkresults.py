#!/usr/bin/env python3
"""Fills the mutant and seeded-change tables of DESIGN.md section 6 from mutants/RESULTS.json, mutants/specs.d and
seeded/*/meta.json (idempotent: the tables live between BEGIN/END markers)."""
import glob, json, os, re, sys
VERIF = os.path.dirname(os.path.dirname(os.path.abspath(__file__)))
sys.path.insert(0, os.path.join(VERIF, 'mutants'))
from specs import SPECS
res = json.load(open(os.path.join(VERIF, 'mutants', 'RESULTS.json')))
rows = ['| mutant | what it changes | expected | quick check says | how |', '|---|---|---|---|---|']
for name, edits in SPECS:
    r = res.get(name, {})
    files = sorted(set(e[0] for e in edits))
    exp = 'silent (negative control)' if '-NEG-' in name else 'caught'
    got = r.get('result', 'not run')
    if r.get('baseline') not in (None, 'pass', 'skipped', 'pass (earlier run)'):
        got = 'INVALID (repo tests %s)' % r.get('baseline')
    rows.append('| %s | %s | %s | %s | %s |' % (name, ', '.join(files), exp, got, (r.get('why') or '').replace('|', '/')[:90]))
mt = '\n'.join(rows)
srows = ['| seeded change | property | what it needs to manifest | caught by | notes |', '|---|---|---|---|---|']
for d in sorted(glob.glob(os.path.join(VERIF, 'seeded', '*'))):
    mp = os.path.join(d, 'meta.json')
    if not os.path.exists(mp):
        continue
    m = json.load(open(mp))
    name = 'seeded/' + os.path.basename(d)
    r = res.get(name, {})
    srows.append('| %s | %s | %s | %s (%s) | %s |' % (os.path.basename(d), m['property'], m.get('needs_to_manifest', '').replace('|', '/'), r.get('result', 'not run'), (r.get('why') or '').replace('|', '/')[:70], m.get('first_run', '').replace('|', '/')))
st = '\n'.join(srows)
p = os.path.join(VERIF, 'DESIGN.md')
s = open(p).read()
def put(s, tag, body):
    b, e = '<!-- BEGIN %s -->' % tag, '<!-- END %s -->' % tag
    block = b + '\n' + body + '\n' + e
    if b in s:
        return re.sub(re.escape(b) + '.*?' + re.escape(e), lambda _: block, s, flags=re.S)
    return s.replace(tag + '-PLACEHOLDER', block)
s = put(s, 'MUTANT-TABLE', mt)
s = put(s, 'SEEDED-TABLE', st)
open(p, 'w').write(s)
print('tables written: %d mutants, %d seeded' % (len(rows) - 2, len(srows) - 2))
